package main

// codec suite: runs Encode / Decode of the current tree on generated values, valid encodings,
// mutations of them and random bytes, and writes
//
//	<dir>/cases.txt  one command per line for the extracted model (ocaml/driver)
//	<dir>/impl.txt   what the implementation did, in the model's output format
//	<dir>/meta.txt   group of the case (which property's projection it belongs to)
//
// plus a Report with the impl-only oracles (over-read, delivery independence, writes on error).

import (
	"bufio"
	"bytes"
	"encoding/binary"
	"encoding/hex"
	"flag"
	"fmt"
	"io"
	"math/rand"
	"net"
	"os"
	"path/filepath"
	"reflect"
	"sort"
	"strings"
	"syscall"
	"time"

	kmip "github.com/smira/go-kmip"
)

func init() { suites["codec"] = suiteCodec }

type caseWriter struct {
	cases, impl, meta *bufio.Writer
	files             []*os.File
	n                 int
	groups            map[string]int
	seen              map[string]bool
	distinct          int
}

func newCaseWriter(dir string) *caseWriter {
	os.MkdirAll(dir, 0o755)
	cw := &caseWriter{groups: map[string]int{}, seen: map[string]bool{}}
	for _, n := range []string{"cases.txt", "impl.txt", "meta.txt"} {
		f, err := os.Create(filepath.Join(dir, n))
		if err != nil {
			panic(err)
		}
		cw.files = append(cw.files, f)
	}
	cw.cases, cw.impl, cw.meta = bufio.NewWriterSize(cw.files[0], 1<<20), bufio.NewWriterSize(cw.files[1], 1<<20), bufio.NewWriterSize(cw.files[2], 1<<20)
	return cw
}

func (cw *caseWriter) add(group, cmd, obs string) {
	cw.cases.WriteString(cmd)
	cw.cases.WriteByte('\n')
	cw.impl.WriteString(obs)
	cw.impl.WriteByte('\n')
	cw.meta.WriteString(group)
	cw.meta.WriteByte('\n')
	cw.n++
	cw.groups[group]++
	if !cw.seen[cmd] {
		if len(cw.seen) < 2000000 {
			cw.seen[cmd] = true
		}
		cw.distinct++
	}
}

func (cw *caseWriter) close() {
	cw.cases.Flush()
	cw.impl.Flush()
	cw.meta.Flush()
	for _, f := range cw.files {
		f.Close()
	}
}

// countingWriter records what reaches the destination of an Encoder
type countingWriter struct{ buf bytes.Buffer }

func (w *countingWriter) Write(p []byte) (int, error) { return w.buf.Write(p) }

// implEncode: "ok <hex>" | "err" | "err-wrote <n>" | "panic <msg>"
func implEncode(v interface{}) (obs string, out []byte) {
	var w countingWriter
	defer func() {
		if p := recover(); p != nil {
			obs = "panic " + firstLine(fmt.Sprint(p))
			out = nil
		}
	}()
	err := kmip.NewEncoder(&w).Encode(v)
	if err != nil {
		if w.buf.Len() != 0 {
			return fmt.Sprintf("err-wrote %d", w.buf.Len()), nil
		}
		return "err", nil
	}
	return "ok " + hexBytes(w.buf.Bytes()), w.buf.Bytes()
}

func firstLine(s string) string {
	if i := strings.IndexByte(s, '\n'); i >= 0 {
		s = s[:i]
	}
	if len(s) > 120 {
		s = s[:120]
	}
	return s
}

type decodeResult struct {
	obs      string // "ok <val>" | "eof" | "err" | "panic ..." | "hang"
	consumed int    // bytes taken from the source
	val      reflect.Value
}

// implDecode decodes into a fresh value of the named type from the given reader
func implDecodeFrom(tyName string, r io.Reader, consumed func() int) (res decodeResult) {
	t, ok := typeByName(tyName)
	if !ok {
		panic("no type " + tyName)
	}
	pv := reflect.New(t)
	done := make(chan struct{})
	go func() {
		defer close(done)
		defer func() {
			if p := recover(); p != nil {
				res.obs = "panic " + firstLine(fmt.Sprint(p))
			}
		}()
		err := kmip.NewDecoder(r).Decode(pv.Interface())
		switch {
		case err == nil:
			res.obs = "ok " + showVal(pv.Elem())
			res.val = pv.Elem()
		case err == io.EOF:
			res.obs = "eof"
		default:
			res.obs = "err"
		}
	}()
	select {
	case <-done:
	case <-time.After(10 * time.Second):
		return decodeResult{obs: "hang"}
	}
	res.consumed = consumed()
	return
}

func implDecode(tyName string, data []byte) decodeResult {
	r := bytes.NewReader(data) // io.ByteScanner: unbuffered path
	return implDecodeFrom(tyName, r, func() int { return len(data) - r.Len() })
}

// ---------- delivery variants (C03 / C06) ----------

type plainReader struct{ r io.Reader } // hides ByteScanner: buffered path

func (p plainReader) Read(b []byte) (int, error) { return p.r.Read(b) }

// chunkReader delivers data in the given chunk sizes; size 0 = empty read; the last data may
// come together with the terminal error
type chunkReader struct {
	data    []byte
	sizes   []int
	i       int
	withEOF bool
	termErr error
	taken   int
	empties int
}

func (c *chunkReader) Read(b []byte) (int, error) {
	if len(c.data) == 0 {
		return 0, c.termErr
	}
	n := 1
	if c.i < len(c.sizes) {
		n = c.sizes[c.i]
		c.i++
	} else {
		n = len(c.data)
	}
	if n == 0 {
		c.empties++
		if c.empties > 50 { // bufio gives up after 100 consecutive empty reads; stay below
			n = 1
		} else {
			return 0, nil
		}
	}
	c.empties = 0
	if n > len(b) {
		n = len(b)
	}
	if n > len(c.data) {
		n = len(c.data)
	}
	copy(b, c.data[:n])
	c.data = c.data[n:]
	c.taken += n
	if len(c.data) == 0 && c.withEOF {
		return n, c.termErr
	}
	return n, nil
}

var errInjected = fmt.Errorf("injected I/O error")

// the kinds of persistent I/O error a source may fail with: plain, "temporary" net.Errors (with and without Timeout, bare,
// wrapped in *net.OpError, a syscall.Errno), an expired deadline.  Decode returns for each of them.
var injectedErrors = []error{errInjected, tempError{timeout: false}, tempError{timeout: true}, &net.OpError{Op: "read", Net: "mem", Err: tempError{timeout: false}},
	syscall.EINTR, syscall.EAGAIN, os.ErrDeadlineExceeded, io.ErrUnexpectedEOF, io.ErrNoProgress}
var injectedHangs int

func injectedError(i int) error {
	if injectedHangs >= 3 {
		return errInjected
	}
	return injectedErrors[i%len(injectedErrors)]
}

// ---------- independent TTLV walker (no schema): offsets of item headers ----------

type item struct {
	off, hdrEnd, end int // [off, end) padded extent
	typ              byte
	length           uint32
	depth            int
	children         []*item
}

func walkItems(b []byte, base, depth int, out *[]*item) []*item {
	var items []*item
	off := 0
	for off+8 <= len(b) {
		l := binary.BigEndian.Uint32(b[off+4:])
		pl := int64(l)
		if pl%8 != 0 {
			pl += 8 - pl%8
		}
		if int64(off)+8+pl > int64(len(b)) {
			break
		}
		it := &item{off: base + off, hdrEnd: base + off + 8, end: base + off + 8 + int(pl), typ: b[off+3], length: l, depth: depth}
		*out = append(*out, it)
		if it.typ == 1 {
			it.children = walkItems(b[off+8:off+8+int(l)], base+off+8, depth+1, out)
		}
		items = append(items, it)
		off += 8 + int(pl)
	}
	return items
}

// ---------- mutations ----------

func mutate(r *rand.Rand, msg []byte, other []byte) (string, []byte) {
	var all []*item
	walkItems(msg, 0, 0, &all)
	m := append([]byte(nil), msg...)
	if len(all) == 0 {
		return "random", randomBytes(r)
	}
	it := all[r.Intn(len(all))]
	lenVals := []uint32{0, 1, 7, 8, 9, 16, it.length + 1, it.length - 1, it.length + 8, it.length - 8, 0x7fffffff, 0x80000000, 0xffffffff, 0xfffffff8, 0xfffffff9, uint32(len(msg))}
	switch r.Intn(14) {
	case 0:
		binary.BigEndian.PutUint32(m[it.off+4:], lenVals[r.Intn(len(lenVals))])
		return "length", m
	case 1:
		m[it.off+3] = byte(r.Intn(12))
		return "type", m
	case 2:
		switch r.Intn(4) {
		case 0:
			m[it.off], m[it.off+1], m[it.off+2] = 0, 0, 0
		case 1:
			m[it.off], m[it.off+1], m[it.off+2] = 0xff, 0xff, 0xff
		case 2:
			m[it.off+2]++
		default:
			o := all[r.Intn(len(all))]
			copy(m[it.off:it.off+3], msg[o.off:o.off+3])
		}
		return "tag", m
	case 3:
		return "truncate", m[:r.Intn(len(m)+1)]
	case 4: // delete an item, fixing nothing
		return "delete", append(append([]byte(nil), msg[:it.off]...), msg[it.end:]...)
	case 5: // delete an item and fix the enclosing lengths
		return "delete-fix", fixLengths(msg, all, it, nil)
	case 6: // duplicate an item and fix lengths
		return "dup-fix", fixLengths(msg, all, it, append(append([]byte(nil), msg[it.off:it.end]...), msg[it.off:it.end]...))
	case 7: // swap with next sibling (lengths stay right)
		for _, o := range all {
			if o.off == it.end && o.depth == it.depth {
				s := append([]byte(nil), msg[:it.off]...)
				s = append(s, msg[o.off:o.end]...)
				s = append(s, msg[it.off:it.end]...)
				s = append(s, msg[o.end:]...)
				return "swap", s
			}
		}
		return "padding", flipPadding(r, m, all)
	case 8:
		return "padding", flipPadding(r, m, all)
	case 9: // splice: replace the item by an item of another message, fix lengths
		var oa []*item
		walkItems(other, 0, 0, &oa)
		if len(oa) > 0 {
			o := oa[r.Intn(len(oa))]
			return "splice-fix", fixLengths(msg, all, it, other[o.off:o.end])
		}
		return "truncate", m[:r.Intn(len(m)+1)]
	case 10: // append an 8-byte item with a huge length inside the item's parent (the wrap-around shape)
		extra := []byte{msg[it.off], msg[it.off+1], byte(r.Intn(256)), byte(1 + r.Intn(10)), 0xff, 0xff, 0xff, byte(0xf8 + r.Intn(8))}
		return "huge-child", fixLengths(msg, all, it, append(append([]byte(nil), msg[it.off:it.end]...), extra...))
	case 11: // trailing garbage after the message
		return "trailing", append(m, randomBytes(r)...)
	case 12: // byte flip anywhere
		if len(m) > 0 {
			m[r.Intn(len(m))] ^= byte(1 << uint(r.Intn(8)))
		}
		return "bitflip", m
	default: // change the value bytes of a primitive
		if it.typ != 1 && it.end > it.hdrEnd {
			m[it.hdrEnd+r.Intn(it.end-it.hdrEnd)] = byte(r.Intn(256))
		}
		return "value", m
	}
}

func flipPadding(r *rand.Rand, m []byte, all []*item) []byte {
	for tries := 0; tries < 10; tries++ {
		it := all[r.Intn(len(all))]
		if it.typ != 1 && int(it.length)%8 != 0 {
			p := it.hdrEnd + int(it.length)
			m[p+r.Intn(it.end-p)] = byte(1 + r.Intn(255))
			return m
		}
		if (it.typ == 2 || it.typ == 5 || it.typ == 10) && it.length == 4 {
			m[it.hdrEnd+4+r.Intn(4)] = byte(1 + r.Intn(255))
			return m
		}
	}
	return m
}

// fixLengths replaces item it by repl and adjusts the lengths of all enclosing structures
func fixLengths(msg []byte, all []*item, it *item, repl []byte) []byte {
	delta := len(repl) - (it.end - it.off)
	out := append([]byte(nil), msg[:it.off]...)
	out = append(out, repl...)
	out = append(out, msg[it.end:]...)
	for _, a := range all {
		if a.typ == 1 && a.off < it.off && a.end >= it.end && a != it {
			l := binary.BigEndian.Uint32(out[a.off+4:])
			binary.BigEndian.PutUint32(out[a.off+4:], uint32(int64(l)+int64(delta)))
		}
	}
	return out
}

func randomBytes(r *rand.Rand) []byte {
	n := r.Intn(64)
	b := make([]byte, n)
	r.Read(b)
	if n >= 8 && r.Intn(2) == 0 { // plausible header
		copy(b, []byte{0x42, 0x00, 0x78, 0x01, 0, 0, 0, byte(n - 8)})
	}
	return b
}

// ---------- independent reflection-driven serializer (non-canonical valid encodings) ----------

var tagByName = func() map[string]uint32 {
	m := map[string]uint32{}
	for _, c := range genNumConsts {
		m[c.Name] = uint32(c.Val)
	}
	return m
}()

type indepOpts struct {
	spellZeros bool // emit zero-valued optional primitive fields and empty optional structures' primitives
	padByte    byte
}

func indepHeader(tag uint32, typ byte, l int) []byte {
	h := make([]byte, 8)
	h[0], h[1], h[2], h[3] = byte(tag>>16), byte(tag>>8), byte(tag), typ
	binary.BigEndian.PutUint32(h[4:], uint32(l))
	return h
}

func (o indepOpts) pad(b []byte) []byte {
	for len(b)%8 != 0 {
		b = append(b, o.padByte)
	}
	return b
}

func isZeroGo(v reflect.Value) bool {
	t := v.Type()
	switch {
	case t == tTime:
		return v.Interface().(time.Time).IsZero()
	case t.Kind() == reflect.Struct:
		for _, i := range kmipFields(t) {
			f := t.Field(i)
			name := strings.SplitN(f.Tag.Get("kmip"), ",", 2)[0]
			if name == "-" || containsOpt(f.Tag.Get("kmip"), "skip") {
				continue
			}
			if !isZeroGo(v.Field(i)) {
				return false
			}
		}
		return true
	case t.Kind() == reflect.Slice || t.Kind() == reflect.String:
		return v.Len() == 0
	case t.Kind() == reflect.Interface || t.Kind() == reflect.Ptr:
		return v.IsNil()
	}
	return v.IsZero()
}

// indepItem serialises one value under a tag; ok=false if the value is outside what the serializer handles
func (o indepOpts) indepItem(tag uint32, v reflect.Value) ([]byte, bool) {
	if v.Kind() == reflect.Interface {
		if v.IsNil() {
			return nil, false
		}
		v = v.Elem()
		if v.Kind() == reflect.Ptr {
			if v.IsNil() {
				return nil, false
			}
			v = v.Elem()
		}
	}
	t := v.Type()
	b8 := make([]byte, 8)
	switch {
	case t == tDuration:
		binary.BigEndian.PutUint32(b8, uint32(v.Int()/int64(time.Second)))
		o.fillPad(b8[4:])
		return append(indepHeader(tag, 10, 4), b8...), true
	case t == tInt32:
		binary.BigEndian.PutUint32(b8, uint32(v.Int()))
		o.fillPad(b8[4:])
		return append(indepHeader(tag, 2, 4), b8...), true
	case t == tInt64:
		binary.BigEndian.PutUint64(b8, uint64(v.Int()))
		return append(indepHeader(tag, 3, 8), b8...), true
	case t == tEnum:
		binary.BigEndian.PutUint32(b8, uint32(v.Uint()))
		o.fillPad(b8[4:])
		return append(indepHeader(tag, 5, 4), b8...), true
	case t == tBool:
		if v.Bool() {
			b8[7] = 1
		}
		return append(indepHeader(tag, 6, 8), b8...), true
	case t == tTime:
		binary.BigEndian.PutUint64(b8, uint64(v.Interface().(time.Time).Unix()))
		return append(indepHeader(tag, 9, 8), b8...), true
	case t == tBytes:
		return append(indepHeader(tag, 8, v.Len()), o.pad(append([]byte(nil), v.Bytes()...))...), true
	case t == tString:
		return append(indepHeader(tag, 7, v.Len()), o.pad([]byte(v.String()))...), true
	case t.Kind() == reflect.Struct:
		body, ok := o.indepFields(v)
		if !ok {
			return nil, false
		}
		return append(indepHeader(tag, 1, len(body)), body...), true
	}
	return nil, false
}

func (o indepOpts) fillPad(p []byte) {
	for i := range p {
		p[i] = o.padByte
	}
}

func (o indepOpts) indepFields(v reflect.Value) ([]byte, bool) {
	t := v.Type()
	var body []byte
	for _, i := range kmipFields(t) {
		f := t.Field(i)
		ann := f.Tag.Get("kmip")
		name := strings.SplitN(ann, ",", 2)[0]
		if name == "-" || containsOpt(ann, "skip") {
			continue
		}
		tag, ok := tagByName[name]
		if !ok {
			return nil, false
		}
		fv := v.Field(i)
		required := containsOpt(ann, "required")
		if fv.Kind() == reflect.Slice && fv.Type() != tBytes {
			for j := 0; j < fv.Len(); j++ {
				b, ok := o.indepItem(tag, fv.Index(j))
				if !ok {
					return nil, false
				}
				body = append(body, b...)
			}
			continue
		}
		if !required && isZeroGo(fv) {
			// a zero optional may legitimately be spelled out - but not a nil interface (no type to write)
			if !(o.spellZeros && fv.Kind() != reflect.Interface) {
				continue
			}
		}
		b, ok := o.indepItem(tag, fv)
		if !ok {
			return nil, false
		}
		body = append(body, b...)
	}
	return body, true
}

func (o indepOpts) indepTop(v interface{}) ([]byte, bool) {
	rv := reflect.ValueOf(v)
	if rv.Kind() == reflect.Ptr {
		rv = rv.Elem()
	}
	t := rv.Type()
	var tag uint32
	for i := 0; i < t.NumField(); i++ {
		if t.Field(i).Type == tTag {
			tag = tagByName[strings.SplitN(t.Field(i).Tag.Get("kmip"), ",", 2)[0]]
		}
	}
	body, ok := o.indepFields(rv)
	if !ok {
		return nil, false
	}
	return append(indepHeader(tag, 1, len(body)), body...), true
}

// ---------- the suite ----------

func sortedTypeNames() []string {
	var ns []string
	for n := range genTypes {
		ns = append(ns, n)
	}
	sort.Strings(ns)
	return ns
}

func suiteCodec(args []string) {
	fs := flag.NewFlagSet("codec", flag.ExitOnError)
	seed := fs.Int64("seed", 1, "")
	n := fs.Int("n", 300, "values per group")
	dir := fs.String("dir", "work/codec", "")
	corpus := fs.String("corpus", "corpus/codec.txt", "")
	fs.Parse(args)
	r := rand.New(rand.NewSource(*seed))
	cw := newCaseWriter(*dir)
	rep := &Report{Suite: "codec", Seed: *seed, Distribution: map[string]int{}, Extra: map[string]interface{}{}}
	rep.Rule = "a case is one model command (enc <value> | dec <type> <bytes> | rt <value> | stream <type> <bytes> | cdec / cstream on a scripted transport | udesc / uenc / udec <declarations of user-defined structure types> ...); distinct = distinct command text; non-trivial = every case except decode inputs shorter than one 8-byte header"
	types := sortedTypeNames()
	perKind := map[string]int{}
	viol := func(kind string, m map[string]interface{}) {
		m["kind"] = kind
		perKind[kind]++
		if perKind[kind] <= 8 { // a few of every kind: one kind must not crowd out the others
			rep.Violations = append(rep.Violations, m)
		}
	}

	// corpus first: lines "<group> <command>" whose implementation result is recomputed
	if data, err := os.ReadFile(*corpus); err == nil {
		for _, line := range strings.Split(string(data), "\n") {
			line = strings.TrimSpace(line)
			if line == "" || line[0] == '#' {
				continue
			}
			parts := strings.SplitN(line, " ", 2)
			runCommand(cw, rep, "corpus:"+parts[0], parts[1], viol)
		}
	}

	var lastGood interface{}
	var lastGoodBytes []byte
	var validMsgs [][2]string // type, hex
	var wfMsgs [][2]string    // encodings of well-formed values only
	// group 1: encode of every struct type: well-formed and arbitrary values
	for _, tn := range types {
		per := *n / 20
		if tn == "Request" || tn == "Response" {
			per = *n
		}
		if per < 3 {
			per = 3
		}
		for i := 0; i < per; i++ {
			g := &gen{r: r, wf: i%3 != 2, big: i%50 == 7, arenaMode: i%7 == 3}
			v := g.genTop(tn)
			txt := showVal(reflect.ValueOf(v))
			obs, out := implEncode(v)
			// C02: Encode reads its input only - the value prints the same afterwards and the spare capacity behind every
			// byte string (a sentinel put there by the generator) is untouched
			if after := showVal(reflect.ValueOf(v)); after != txt || (!g.arenaMode && spareTouched(reflect.ValueOf(v), 0)) {
				viol("encode-mutates-input", map[string]interface{}{"what": "Encode modified the value it was given (a field changed, or bytes were written into the spare capacity behind a byte string - memory the caller may be using for something else)",
					"value_before": firstN(txt, 1500), "value_after": firstN(after, 1500)})
			}
			// C13: a failed Encode must not affect what a later Encode writes: re-encode the last value that encoded
			// successfully (its bytes were taken before the failure) and compare
			if out == nil && lastGood != nil {
				obs2, out2 := implEncode(lastGood)
				rep.Distribution["enc-after-failure"]++
				if !bytes.Equal(out2, lastGoodBytes) {
					viol("enc-after-failure", map[string]interface{}{
						"what":             "after an Encode that failed, encoding a value again yields other bytes than before the failure",
						"failing_value":    firstN(txt, 1500),
						"value":            firstN(showVal(reflect.ValueOf(lastGood)), 1500),
						"before_failure":   "ok " + hexBytes(lastGoodBytes),
						"after_failure":    firstN(obs2, 3000),
						"failing_encode":   firstN(obs, 200)})
				}
			} else if out != nil {
				lastGood, lastGoodBytes = v, append([]byte(nil), out...)
			}
			group := "enc-any"
			if g.wf {
				group = "enc-wf"
			}
			cw.add(group, "enc "+txt, obs)
			rep.Distribution["enc:"+strings.SplitN(obs, " ", 2)[0]]++
			if out != nil {
				if len(validMsgs) < 4000 {
					validMsgs = append(validMsgs, [2]string{tn, hex.EncodeToString(out)})
				}
				if g.wf {
					if len(wfMsgs) < 4000 {
						wfMsgs = append(wfMsgs, [2]string{tn, hex.EncodeToString(out)})
					}
					runRoundTrip(cw, rep, tn, v, txt, out, viol)
					// non-canonical but valid encodings: zero optionals spelled out, non-zero padding
					for _, o := range []indepOpts{{spellZeros: true}, {padByte: 0xAA}, {spellZeros: true, padByte: 0x55}} {
						if alt, ok := o.indepTop(v); ok {
							res := implDecode(tn, alt)
							cw.add("dec-noncanon", "dec "+tn+" "+hexBytes(alt), decObs(res, len(alt)))
							rep.Distribution["dec-noncanon:"+strings.SplitN(res.obs, " ", 2)[0]]++
						}
					}
				}
			}
		}
	}
	// group 1b: long messages made of many short items (a Locate reply with hundreds of identifiers, a long batch): every
	// nested structure is longer than any internal buffer, so values straddle whatever refill boundaries there are
	nMany := 2 + *n/100
	for k := 0; k < nMany; k++ {
		ids := make([]string, 90+r.Intn(400)+(k%3)*300)
		for i := range ids {
			id := strings.Repeat(fmt.Sprintf("%016x", r.Int63()), 3)
			ids[i] = id[:1+r.Intn(40)]
		}
		var v interface{}
		tn := "Response"
		if k%2 == 0 {
			v = &kmip.Response{Header: kmip.ResponseHeader{Version: kmip.ProtocolVersion{Major: 1, Minor: 4}, TimeStamp: time.Unix(1500000000, 0), BatchCount: 1},
				BatchItems: []kmip.ResponseBatchItem{{Operation: kmip.OPERATION_LOCATE, ResultStatus: kmip.RESULT_STATUS_SUCCESS,
					ResponsePayload: kmip.LocateResponse{LocatedItems: int32(len(ids)), UniqueIdentifiers: ids}}}}
		} else {
			tn = "Request"
			req := &kmip.Request{Header: kmip.RequestHeader{Version: kmip.ProtocolVersion{Major: 1, Minor: 4}, BatchCount: int32(len(ids) / 4)}}
			for i := 0; i < len(ids)/4; i++ {
				req.BatchItems = append(req.BatchItems, kmip.RequestBatchItem{Operation: kmip.OPERATION_GET, UniqueID: []byte(ids[i]), RequestPayload: kmip.GetRequest{UniqueIdentifier: ids[i]}})
			}
			v = req
		}
		txt := showVal(reflect.ValueOf(v))
		obs, out := implEncode(v)
		cw.add("enc-wf", "enc "+txt, obs)
		rep.Distribution["enc-many:"+strings.SplitN(obs, " ", 2)[0]]++
		if out != nil {
			runRoundTrip(cw, rep, tn, v, txt, out, viol)
			rep.Distribution[fmt.Sprintf("rt-many:%dKiB", len(out)/1024)]++
		}
	}
	// group 1b': single values longer than 64 KiB whose length is not a multiple of 8 (the value is what the bytes denote: no
	// padding left on it), text and bytes
	for _, l := range []int{65537, 70001, 131075} {
		req := &kmip.Request{Header: kmip.RequestHeader{Version: kmip.ProtocolVersion{Major: 1, Minor: 4}, BatchCount: 1, ClientCorrelationValue: strings.Repeat("c", l)},
			BatchItems: []kmip.RequestBatchItem{{Operation: kmip.OPERATION_GET, UniqueID: bytes.Repeat([]byte{0x5a}, l+2), RequestPayload: kmip.GetRequest{UniqueIdentifier: "k"}}}}
		txt := showVal(reflect.ValueOf(req))
		obs, out := implEncode(req)
		cw.add("enc-wf", "enc "+txt, obs)
		if out != nil {
			runRoundTrip(cw, rep, "Request", req, txt, out, viol)
			res := implDecode("Request", out)
			cw.add("dec-valid", "dec Request "+hexBytes(out), decObs(res, len(out)))
			rep.Distribution["rt-long-value"]++
		}
	}
	// group 1c: user-defined structure types against the models run on their declarations (UserTypes.v)
	userModelCases(cw, rep, r, 10+*n/10, viol)
	// group 2: top-level shapes that are not messages (C13)
	for _, txt := range []string{"N", "(i 5)", "(s 6162)", "(X typednil)", "(X int)", "(X map)", "(X slice)", "(X func)", "(X chan)", "(X float64)",
		"(P (P (S GetRequest (s _) (e 0) (e 0) (e 0) (S KeyWrappingSpecification (e 0) (S EncryptionKeyInformation (s _) (S CryptoParams (e 0) (e 0) (e 0) (e 0) (e 0) (e 0) (b 0) (i 0) (i 0) (i 0) (i 0) (i 0) (i 0) (i 0) (e 0) (e 0) (y _) (i 0))) (S MACSignatureKeyInformation (s _) (S CryptoParams (e 0) (e 0) (e 0) (e 0) (e 0) (e 0) (b 0) (i 0) (i 0) (i 0) (i 0) (i 0) (i 0) (i 0) (e 0) (e 0) (y _) (i 0))) (L) (e 0)))))",
		"(S BadTag (i 1))", "(P (S BadType (X int)))", "(S BadStructTag (i 2))", "(P (i 7))", "(t 0)", "(d 0)", "(y 00)"} {
		func() {
			defer func() {
				if p := recover(); p != nil {
					fmt.Fprintln(os.Stderr, "skipping shape", txt, p)
				}
			}()
			v := parseTop(txt)
			obs, _ := implEncode(v)
			cw.add("enc-shape", "enc "+txt, obs)
			rep.Distribution["enc-shape:"+strings.SplitN(obs, " ", 2)[0]]++
		}()
	}
	// group 2b: Decode targets that are not pointers to KMIP structures (C13): impl-only oracle
	{
		var i int
		var pp *kmip.Request
		var s string
		var m map[string]int
		targets := map[string]interface{}{"nil": nil, "&int": &i, "&ptr": &pp, "struct-by-value": kmip.Request{}, "nil-ptr": (*kmip.Request)(nil),
			"&string": &s, "&map": &m, "int": 5, "&BadTag": &BadTag{}, "&BadType": &BadType{}, "func": func() {}, "&time": new(time.Time)}
		var names []string
		for k := range targets {
			names = append(names, k)
		}
		sort.Strings(names)
		for _, k := range names {
			for _, data := range [][]byte{nil, {0x42, 0, 0x78, 1, 0, 0, 0, 0}, randomBytes(r)} {
				func() {
					defer func() {
						if p := recover(); p != nil {
							viol("target-panic", map[string]interface{}{"target": k, "bytes": hexBytes(data), "panic": firstLine(fmt.Sprint(p))})
						}
					}()
					err := kmip.NewDecoder(bytes.NewReader(data)).Decode(targets[k])
					rep.Distribution[fmt.Sprintf("dec-target:%s:%v", k, err == nil)]++
				}()
			}
		}
	}
	// group 3: decode of valid encodings, mutations and random bytes
	for i, m := range validMsgs {
		tn := m[0]
		b, _ := hex.DecodeString(m[1])
		if i%4 == 0 {
			res := implDecode(tn, b)
			cw.add("dec-valid", "dec "+tn+" "+hexBytes(b), decObs(res, len(b)))
		}
		if tn != "Request" && tn != "Response" && i%3 != 0 {
			continue
		}
		other, _ := hex.DecodeString(validMsgs[r.Intn(len(validMsgs))][1])
		for k := 0; k < 3; k++ {
			kind, mb := mutate(r, b, other)
			res := implDecode(tn, mb)
			cw.add("dec-mut", "dec "+tn+" "+hexBytes(mb), decObs(res, len(mb)))
			rep.Distribution["mut:"+kind+":"+strings.SplitN(res.obs, " ", 2)[0]]++
			checkOverread(res, mb, tn, viol)
			if k == 0 {
				checkDelivery(r, rep, tn, mb, res, viol)
			}
		}
	}
	for i := 0; i < *n; i++ {
		b := randomBytes(r)
		tn := []string{"Request", "Response"}[i%2]
		res := implDecode(tn, b)
		cw.add("dec-random", "dec "+tn+" "+hexBytes(b), decObs(res, len(b)))
		rep.Distribution["random:"+strings.SplitN(res.obs, " ", 2)[0]]++
		checkOverread(res, b, tn, viol)
	}
	// group 4: truncation at every offset of a few messages
	cnt := 0
	for _, m := range validMsgs {
		if m[0] != "Request" && m[0] != "Response" {
			continue
		}
		b, _ := hex.DecodeString(m[1])
		if len(b) > 400 {
			continue
		}
		cnt++
		if cnt > 1+*n/100 {
			break
		}
		for cut := 0; cut < len(b); cut++ {
			res := implDecode(m[0], b[:cut])
			cw.add("dec-trunc", "dec "+m[0]+" "+hexBytes(b[:cut]), decObs(res, cut))
			if strings.HasPrefix(res.obs, "ok") {
				viol("truncation-accepted", map[string]interface{}{"type": m[0], "bytes": hexBytes(b[:cut]), "full": m[1]})
			}
		}
	}
	// group 5: streams of messages through one Decoder (C06)
	runStreams(cw, rep, r, wfMsgs, *n/10+3, viol)
	// group 6: the decoder on reader objects (Readers.v): the same script of read sizes drives the real
	// bufio / LimitReader / ReadFull / CopyN stack and their models
	runScripted(cw, rep, r, validMsgs, wfMsgs, *n, viol)

	cw.close()
	rep.Evaluations = cw.n
	rep.Nontrivial = cw.distinct
	for g, c := range cw.groups {
		rep.Distribution["group:"+g] = c
	}
	rep.emit()
}

// decObs: "ok <val> <remaining>" | "eof" | "err" | "panic .." | "hang"
func decObs(res decodeResult, total int) string {
	if strings.HasPrefix(res.obs, "ok ") {
		return fmt.Sprintf("%s %d", res.obs, total-res.consumed)
	}
	return res.obs
}

// C03: from an unbuffered source nothing beyond the outermost item's declared end is consumed
func checkOverread(res decodeResult, b []byte, tn string, viol func(string, map[string]interface{})) {
	limit := 8
	if len(b) >= 8 {
		limit = 8 + int(binary.BigEndian.Uint32(b[4:8]))
	}
	if res.consumed > limit {
		viol("over-read", map[string]interface{}{"type": tn, "bytes": hexBytes(b), "consumed": res.consumed, "declared_end": limit})
	}
	if strings.HasPrefix(res.obs, "panic") || res.obs == "hang" {
		viol("decode-"+strings.SplitN(res.obs, " ", 2)[0], map[string]interface{}{"type": tn, "bytes": hexBytes(b), "observed": res.obs})
	}
}

// C03/C06: the same bytes delivered in other ways give the same outcome
func checkDelivery(r *rand.Rand, rep *Report, tn string, b []byte, ref decodeResult, viol func(string, map[string]interface{})) {
	variants := map[string]func() io.Reader{
		"buffered": func() io.Reader { return plainReader{bytes.NewReader(b)} },
		"bufio":    func() io.Reader { return bufio.NewReaderSize(bytes.NewReader(b), 16) },
		"onebyte": func() io.Reader {
			return &chunkReader{data: append([]byte(nil), b...), sizes: make1s(len(b)), termErr: io.EOF}
		},
		"chunks": func() io.Reader {
			var sizes []int
			for left := len(b); left > 0; {
				s := r.Intn(20)
				sizes = append(sizes, s)
				left -= s
			}
			return &chunkReader{data: append([]byte(nil), b...), sizes: sizes, termErr: io.EOF, withEOF: r.Intn(2) == 0}
		},
	}
	names := []string{"buffered", "bufio", "onebyte", "chunks"}
	for _, name := range names {
		res := implDecodeFrom(tn, variants[name](), func() int { return 0 })
		rep.Distribution["delivery:"+name]++
		if res.obs != ref.obs {
			viol("delivery-dependent", map[string]interface{}{"type": tn, "bytes": hexBytes(b), "delivery": name, "in_memory": firstN(ref.obs, 200), "this": firstN(res.obs, 200)})
		}
	}
	// I/O error injected at a random offset: must yield an error (or the same success if the message ended before)
	cut := 0
	if len(b) > 0 {
		cut = r.Intn(len(b))
	}
	res := implDecodeFrom(tn, &chunkReader{data: append([]byte(nil), b[:cut]...), sizes: []int{cut}, termErr: injectedError(cut + len(b))}, func() int { return 0 })
	rep.Distribution["delivery:ioerr"]++
	if res.obs == "hang" {
		injectedHangs++
	}
	if strings.HasPrefix(res.obs, "panic") || res.obs == "hang" {
		viol("decode-ioerr-"+strings.SplitN(res.obs, " ", 2)[0], map[string]interface{}{"type": tn, "bytes": hexBytes(b[:cut]), "observed": res.obs})
	}
	if strings.HasPrefix(res.obs, "ok") && !strings.HasPrefix(implDecode(tn, b[:cut]).obs, "ok") {
		viol("ioerr-accepted", map[string]interface{}{"type": tn, "bytes": hexBytes(b[:cut])})
	}
}

// spareTouched: is a byte of the spare capacity behind some []byte in the value no longer the generator's sentinel?
func spareTouched(v reflect.Value, depth int) bool {
	if depth > 14 || !v.IsValid() {
		return false
	}
	switch v.Kind() {
	case reflect.Ptr, reflect.Interface:
		if v.IsNil() {
			return false
		}
		return spareTouched(v.Elem(), depth+1)
	case reflect.Slice:
		if v.Type() == tBytes {
			if v.IsNil() || v.Cap() <= v.Len() {
				return false
			}
			full := v.Slice3(0, v.Len(), v.Cap()).Slice(0, v.Cap()).Bytes()
			for i := v.Len(); i < len(full); i++ {
				if full[i] != spareSentinel {
					return true
				}
			}
			return false
		}
		for i := 0; i < v.Len(); i++ {
			if spareTouched(v.Index(i), depth+1) {
				return true
			}
		}
	case reflect.Struct:
		if v.Type() == tTime {
			return false
		}
		for i := 0; i < v.NumField(); i++ {
			if spareTouched(v.Field(i), depth+1) {
				return true
			}
		}
	}
	return false
}

func make1s(n int) []int {
	s := make([]int, n)
	for i := range s {
		s[i] = 1
	}
	return s
}

func firstN(s string, n int) string {
	if len(s) > n {
		return s[:n]
	}
	return s
}

// runRoundTrip: "rt <val>" -> "ok <hex> <decoded> <reencoded-identical>"
func runRoundTrip(cw *caseWriter, rep *Report, tn string, v interface{}, txt string, out []byte, viol func(string, map[string]interface{})) {
	res := implDecode(tn, out)
	obs := "ok " + hexBytes(out)
	if !strings.HasPrefix(res.obs, "ok ") {
		obs += " " + res.obs
	} else {
		re, reb := implEncode(res.val.Addr().Interface())
		same := "0"
		if reb != nil && bytes.Equal(reb, out) && res.consumed == len(out) {
			same = "1"
		}
		_ = re
		obs += " " + strings.TrimPrefix(res.obs, "ok ") + " " + same
	}
	cw.add("rt", "rt "+txt, obs)
	rep.Distribution["rt"]++
}

func runStreams(cw *caseWriter, rep *Report, r *rand.Rand, valid [][2]string, count int, viol func(string, map[string]interface{})) {
	var reqs, resps [][]byte
	for _, m := range valid {
		b, _ := hex.DecodeString(m[1])
		if len(b) > 600 {
			continue
		}
		if m[0] == "Request" {
			reqs = append(reqs, b)
		}
		if m[0] == "Response" {
			resps = append(resps, b)
		}
	}
	for i := 0; i < count; i++ {
		pool, tn := reqs, "Request"
		if i%2 == 1 {
			pool, tn = resps, "Response"
		}
		if len(pool) == 0 {
			continue
		}
		k := 1 + r.Intn(4)
		var stream []byte
		var bounds []int
		for j := 0; j < k; j++ {
			stream = append(stream, pool[r.Intn(len(pool))]...)
			bounds = append(bounds, len(stream))
		}
		if i%5 == 4 { // damaged tail
			stream = append(stream, randomBytes(r)...)
		}
		ref := implStream(tn, bytes.NewReader(stream))
		cw.add("stream", "stream "+tn+" "+hexBytes(stream), ref)
		rep.Distribution["stream:msgs="+fmt.Sprint(k)]++
		// unbuffered source: bytes consumed per message
		br := bytes.NewReader(stream)
		d := kmip.NewDecoder(br)
		t, _ := typeByName(tn)
		for j := 0; j < k; j++ {
			pv := reflect.New(t)
			if err := d.Decode(pv.Interface()); err != nil {
				viol("stream-valid-message-rejected", map[string]interface{}{"type": tn, "stream": hexBytes(stream), "index": j})
				break
			}
			if got := len(stream) - br.Len(); got != bounds[j] {
				viol("stream-consumption", map[string]interface{}{"type": tn, "stream": hexBytes(stream), "index": j, "consumed": got, "expected": bounds[j]})
				break
			}
		}
		// every two-way split, one-byte, random chunks, data+EOF, empty reads; buffered and unbuffered top level
		check := func(name string, rd io.Reader) {
			got := implStream(tn, rd)
			rep.Distribution["stream-delivery:"+strings.SplitN(name, "@", 2)[0]]++
			if got != ref {
				viol("stream-fragmentation", map[string]interface{}{"type": tn, "stream": hexBytes(stream), "delivery": name, "in_memory": firstN(ref, 300), "this": firstN(got, 300)})
			}
		}
		for cut := 0; cut <= len(stream); cut++ {
			if len(stream) > 300 && cut%7 != 0 {
				continue
			}
			check(fmt.Sprintf("split@%d", cut), &chunkReader{data: append([]byte(nil), stream...), sizes: []int{cut, len(stream) - cut}, termErr: io.EOF, withEOF: cut%2 == 0})
		}
		check("onebyte", &chunkReader{data: append([]byte(nil), stream...), sizes: make1s(len(stream)), termErr: io.EOF})
		var sizes []int
		for left := len(stream); left > 0; {
			s := r.Intn(24)
			sizes = append(sizes, s)
			left -= s
		}
		check("chunks", &chunkReader{data: append([]byte(nil), stream...), sizes: sizes, termErr: io.EOF, withEOF: true})
		check("bufio16", bufio.NewReaderSize(bytes.NewReader(stream), 16))
	}
}

// scriptReader is the transport of Readers.v (base_read): every Read consumes one entry of the script of sizes
// (0 = empty read; script exhausted = everything that is left), hands out at most that many bytes, may deliver
// the last bytes together with the terminal error, and keeps returning that error afterwards
type scriptReader struct {
	data  []byte
	sizes []int
	weof  bool
	term  error
}

func (s *scriptReader) Read(p []byte) (int, error) {
	if len(s.data) == 0 {
		return 0, s.term
	}
	n := len(s.data)
	if len(s.sizes) > 0 {
		n = s.sizes[0]
		s.sizes = s.sizes[1:]
	}
	if n == 0 {
		return 0, nil
	}
	if n > len(p) {
		n = len(p)
	}
	if n > len(s.data) {
		n = len(s.data)
	}
	copy(p, s.data[:n])
	s.data = s.data[n:]
	if len(s.data) == 0 && s.weof {
		return n, s.term
	}
	return n, nil
}

// genScript: read sizes covering the data - single bytes, small and large chunks, runs of empty reads (< 50)
func genScript(r *rand.Rand, total int) []int {
	var sizes []int
	style := r.Intn(5)
	for left := total; left > 0; {
		var s int
		switch style {
		case 0:
			s = 1
		case 1:
			s = r.Intn(9)
		case 2:
			s = r.Intn(40)
			if r.Intn(6) == 0 {
				for k := r.Intn(30); k > 0; k-- {
					sizes = append(sizes, 0)
				}
			}
		case 3:
			s = 1 + r.Intn(5000)
		default:
			s = []int{0, 1, 3, 7, 8, 9, 15, 16, 17, 511, 512, 513, 4095, 4096, 4097}[r.Intn(15)]
		}
		sizes = append(sizes, s)
		left -= s
	}
	if r.Intn(4) == 0 && len(sizes) > 1 {
		sizes = sizes[:r.Intn(len(sizes))] // script ends early: the rest comes at once
	}
	return sizes
}

func sizesText(sizes []int) string {
	if len(sizes) == 0 {
		return "-"
	}
	p := make([]string, len(sizes))
	for i, s := range sizes {
		p[i] = fmt.Sprint(s)
	}
	return strings.Join(p, ",")
}

func scriptedSource(mode int, data []byte, sizes []int, weof bool, term error) (io.Reader, func() int) {
	if mode == 0 {
		br := bytes.NewReader(data)
		return br, br.Len
	}
	sr := &scriptReader{data: append([]byte(nil), data...), sizes: append([]int(nil), sizes...), weof: weof, term: term}
	if mode == 1 {
		return sr, func() int { return len(sr.data) }
	}
	return bufio.NewReaderSize(sr, mode), func() int { return len(sr.data) }
}

func runScripted(cw *caseWriter, rep *Report, r *rand.Rand, validMsgs, wfMsgs [][2]string, n int, viol func(string, map[string]interface{})) {
	if len(validMsgs) == 0 {
		return
	}
	count := 2*n + 100
	for i := 0; i < count; i++ {
		m := validMsgs[r.Intn(len(validMsgs))]
		tn := m[0]
		b, _ := hex.DecodeString(m[1])
		if len(b) > 6000 {
			continue
		}
		kind := "valid"
		switch i % 4 {
		case 1:
			other, _ := hex.DecodeString(validMsgs[r.Intn(len(validMsgs))][1])
			kind, b = mutate(r, b, other)
		case 2:
			if len(b) > 0 {
				b = b[:r.Intn(len(b))]
			}
			kind = "truncated"
		}
		if len(b) > 6000 {
			continue
		}
		mode := []int{0, 1, 1, 16, 16, 37, 4096}[r.Intn(7)]
		term, termName := io.EOF, "eof"
		if i%5 == 3 {
			term, termName = injectedError(i/5), "ioe"
		}
		var sizes []int
		weof := false
		if mode != 0 {
			sizes = genScript(r, len(b))
			weof = r.Intn(2) == 0
		} else {
			term, termName = io.EOF, "eof"
		}
		src, left := scriptedSource(mode, b, sizes, weof, term)
		res := implDecodeFrom(tn, src, func() int { return 0 })
		obs := res.obs
		if obs == "hang" {
			injectedHangs++
		}
		if mode == 0 {
			obs += fmt.Sprintf(" | left=%d", left())
		}
		w := "0"
		if weof {
			w = "1"
		}
		cw.add("cdec", fmt.Sprintf("cdec %s %d %s %s %s %s", tn, mode, sizesText(sizes), w, termName, hexBytes(b)), obs)
		rep.Distribution[fmt.Sprintf("cdec:mode=%d:%s:%s:%s", mode, termName, kind, strings.SplitN(res.obs, " ", 2)[0])]++
		if strings.HasPrefix(res.obs, "panic") || res.obs == "hang" {
			viol("decode-"+strings.SplitN(res.obs, " ", 2)[0], map[string]interface{}{"type": tn, "bytes": hexBytes(b), "script": sizesText(sizes), "observed": res.obs})
		}
	}
	// a large text string as the very last item of the message, its bytes arriving together with io.EOF: reads of 4 KiB and
	// more bypass bufio's buffer at every nesting level, so (n > 0, io.EOF) reaches the value reader itself
	for _, L := range []int{4096, 4100, 8192} {
		resp := kmip.Response{Header: kmip.ResponseHeader{Version: kmip.ProtocolVersion{Major: 1, Minor: 4}, TimeStamp: time.Unix(1000, 0), BatchCount: 1},
			BatchItems: []kmip.ResponseBatchItem{{Operation: kmip.OPERATION_ACTIVATE, ResponsePayload: kmip.ActivateResponse{UniqueIdentifier: strings.Repeat("k", L)}}}}
		_, b := implEncode(&resp)
		if b == nil {
			continue
		}
		off := len(b) - L - (8-L%8)%8
		for _, mode := range []int{1, 16, 37, 4096} {
			for variant := 0; variant < 4; variant++ {
				var sizes []int
				switch variant {
				case 0:
					sizes = []int{off, len(b)}
				case 1:
					sizes = []int{off + 100, len(b)}
				case 2:
					sizes = []int{off - 3, 3, 0, len(b)}
				default:
					sizes = genScript(r, len(b))
				}
				for _, twice := range []bool{false, true} {
					data := b
					tn := "Response"
					group, cmdName := "cdec", "cdec"
					if twice {
						data = append(append([]byte(nil), b...), b...)
						sizes = append([]int{len(b)}, sizes...)
						group, cmdName = "cstream", "cstream"
					}
					src, _ := scriptedSource(mode, data, sizes, true, io.EOF)
					var obs string
					if twice {
						obs = implStream(tn, src)
					} else {
						obs = implDecodeFrom(tn, src, func() int { return 0 }).obs
					}
					cw.add(group, fmt.Sprintf("%s %s %d %s 1 eof %s", cmdName, tn, mode, sizesText(sizes), hexBytes(data)), obs)
					rep.Distribution[fmt.Sprintf("%s:bigtail:mode=%d", cmdName, mode)]++
				}
			}
		}
	}
	// streams through one Decoder on the scripted transport
	var pool [][]byte
	for _, m := range wfMsgs {
		if m[0] == "Request" {
			if b, err := hex.DecodeString(m[1]); err == nil && len(b) < 1500 {
				pool = append(pool, b)
			}
		}
	}
	for i := 0; i < count/8+3 && len(pool) > 0; i++ {
		var stream []byte
		for k := 1 + r.Intn(4); k > 0; k-- {
			stream = append(stream, pool[r.Intn(len(pool))]...)
		}
		if i%4 == 3 {
			stream = append(stream, randomBytes(r)...)
		}
		mode := []int{0, 1, 16, 37}[r.Intn(4)]
		var sizes []int
		weof := false
		if mode != 0 {
			sizes = genScript(r, len(stream))
			weof = r.Intn(2) == 0
		}
		src, left := scriptedSource(mode, stream, sizes, weof, io.EOF)
		obs := implStream("Request", src)
		if mode == 0 {
			obs += fmt.Sprintf(" | left=%d", left())
		}
		w := "0"
		if weof {
			w = "1"
		}
		cw.add("cstream", fmt.Sprintf("cstream Request %d %s %s eof %s", mode, sizesText(sizes), w, hexBytes(stream)), obs)
		rep.Distribution[fmt.Sprintf("cstream:mode=%d", mode)]++
	}
}

// implStream: successive Decode calls on one Decoder: "v1 | v2 | ... | eof|err"
func implStream(tn string, rd io.Reader) (out string) {
	t, _ := typeByName(tn)
	defer func() {
		if p := recover(); p != nil {
			out += "panic " + firstLine(fmt.Sprint(p))
		}
	}()
	d := kmip.NewDecoder(rd)
	var parts []string
	for i := 0; i < 64; i++ {
		pv := reflect.New(t)
		err := d.Decode(pv.Interface())
		if err == io.EOF {
			parts = append(parts, "eof")
			break
		}
		if err != nil {
			parts = append(parts, "err")
			break
		}
		parts = append(parts, showVal(pv.Elem()))
	}
	return strings.Join(parts, " | ")
}

// runCommand re-runs one model command on the implementation (corpus / replay)
func runCommand(cw *caseWriter, rep *Report, group, cmd string, viol func(string, map[string]interface{})) {
	parts := strings.SplitN(cmd, " ", 2)
	defer func() {
		if p := recover(); p != nil {
			fmt.Fprintln(os.Stderr, "cannot run corpus command:", firstN(cmd, 80), p)
		}
	}()
	switch parts[0] {
	case "enc":
		obs, _ := implEncode(parseTop(parts[1]))
		cw.add(group, cmd, obs)
	case "dec":
		a := strings.SplitN(parts[1], " ", 2)
		b := parseHexBytes(a[1])
		res := implDecode(a[0], b)
		cw.add(group, cmd, decObs(res, len(b)))
		checkOverread(res, b, a[0], viol)
	case "rt":
		v := parseTop(parts[1])
		obs, out := implEncode(v)
		if out == nil {
			cw.add(group, cmd, obs)
			return
		}
		rv := reflect.ValueOf(v)
		if rv.Kind() == reflect.Ptr {
			rv = rv.Elem()
		}
		runRoundTrip(cw, rep, rv.Type().Name(), v, parts[1], out, viol)
	case "stream":
		a := strings.SplitN(parts[1], " ", 2)
		cw.add(group, cmd, implStream(a[0], bytes.NewReader(parseHexBytes(a[1]))))
	}
}
