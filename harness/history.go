package main

// history suite (C02): the bytes Encode produces for a value do not depend on what was
// encoded or decoded before in the process, nor on what is being encoded concurrently.

import (
	"bytes"
	"flag"
	"math/rand"
	"reflect"
	"sync"
)

func init() { suites["history"] = suiteHistory }

func suiteHistory(args []string) {
	fs := flag.NewFlagSet("history", flag.ExitOnError)
	seed := fs.Int64("seed", 1, "")
	n := fs.Int("n", 40, "")
	fs.Parse(args)
	r := rand.New(rand.NewSource(*seed))
	rep := &Report{Suite: "history", Seed: *seed, Distribution: map[string]int{}}
	rep.Rule = "each evaluation: one value encoded fresh, again after a random history of >= 20 other encodes/decodes of overlapping types, and in 16 goroutines next to other encodes; non-trivial = the value encodes successfully"
	types := sortedTypeNames()
	for i := 0; i < *n; i++ {
		tn := []string{"Request", "Response", types[r.Intn(len(types))]}[i%3]
		g := &gen{r: r, wf: true}
		v := g.genTop(tn)
		obs0, b0 := implEncode(v)
		rep.Evaluations++
		if b0 == nil {
			continue
		}
		rep.Nontrivial++
		// history
		for k := 0; k < 20+r.Intn(20); k++ {
			g2 := &gen{r: r, wf: r.Intn(3) != 0}
			o := g2.genTop([]string{"Request", "Response", tn, types[r.Intn(len(types))]}[r.Intn(4)])
			_, ob := implEncode(o)
			if ob != nil && r.Intn(2) == 0 {
				rv := reflect.ValueOf(o)
				if rv.Kind() == reflect.Ptr {
					rv = rv.Elem()
				}
				implDecode(rv.Type().Name(), ob)
			}
			if r.Intn(4) == 0 {
				implDecode("Request", randomBytes(r))
			}
		}
		obs1, b1 := implEncode(v)
		if obs1 != obs0 || !bytes.Equal(b0, b1) {
			rep.Violations = append(rep.Violations, map[string]interface{}{"kind": "history-dependent", "value": showVal(reflect.ValueOf(v)), "fresh": obs0, "after_history": obs1})
		}
		// concurrency
		var wg sync.WaitGroup
		results := make([][]byte, 16)
		others := make([]interface{}, 16)
		for j := range others {
			others[j] = (&gen{r: rand.New(rand.NewSource(r.Int63())), wf: true}).genTop(tn)
		}
		for j := 0; j < 16; j++ {
			wg.Add(1)
			go func(j int) {
				defer wg.Done()
				if j%2 == 1 {
					implEncode(others[j])
				}
				_, results[j] = implEncode(v)
			}(j)
		}
		wg.Wait()
		for j := range results {
			if !bytes.Equal(results[j], b0) {
				rep.Violations = append(rep.Violations, map[string]interface{}{"kind": "concurrency-dependent", "value": showVal(reflect.ValueOf(v)), "fresh": obs0, "goroutine": j})
				break
			}
		}
		if len(rep.Samples) < 2 {
			rep.Samples = append(rep.Samples, map[string]interface{}{"type": tn, "bytes": len(b0)})
		}
	}
	rep.emit()
}
