package main

// history suite (C02): the bytes Encode produces for a value do not depend on what was
// encoded or decoded before in the process, nor on what is being encoded concurrently.

import (
	"bytes"
	"flag"
	"fmt"
	"math/rand"
	"reflect"
	"sync"
	"time"

	kmip "github.com/smira/go-kmip"
)

func init() { suites["history"] = suiteHistory }

func suiteHistory(args []string) {
	fs := flag.NewFlagSet("history", flag.ExitOnError)
	seed := fs.Int64("seed", 1, "")
	n := fs.Int("n", 40, "")
	fs.Parse(args)
	r := rand.New(rand.NewSource(*seed))
	rep := &Report{Suite: "history", Seed: *seed, Distribution: map[string]int{}}
	rep.Rule = "each evaluation: one value encoded fresh, again after a random history of >= 20 other encodes/decodes of overlapping types, and in 16 goroutines next to other encodes; one Encoder reused for sequences of 6 values a third of which it must reject (each step compared with a fresh Encoder); every ordered pair of 15 dynamic element kinds in a user-defined []interface{} field and in adjacent interface fields; non-trivial = the value encodes successfully"
	types := sortedTypeNames()
	for i := 0; i < *n; i++ {
		tn := []string{"Request", "Response", types[r.Intn(len(types))]}[i%3]
		g := &gen{r: r, wf: true}
		v := g.genTop(tn)
		obs0, b0 := implEncode(v)
		rep.Evaluations++
		if b0 == nil {
			continue
		}
		rep.Nontrivial++
		// history
		for k := 0; k < 20+r.Intn(20); k++ {
			g2 := &gen{r: r, wf: r.Intn(3) != 0}
			o := g2.genTop([]string{"Request", "Response", tn, types[r.Intn(len(types))]}[r.Intn(4)])
			_, ob := implEncode(o)
			if ob != nil && r.Intn(2) == 0 {
				rv := reflect.ValueOf(o)
				if rv.Kind() == reflect.Ptr {
					rv = rv.Elem()
				}
				implDecode(rv.Type().Name(), ob)
			}
			if r.Intn(4) == 0 {
				implDecode("Request", randomBytes(r))
			}
		}
		obs1, b1 := implEncode(v)
		if obs1 != obs0 || !bytes.Equal(b0, b1) {
			rep.Violations = append(rep.Violations, map[string]interface{}{"kind": "history-dependent", "value": showVal(reflect.ValueOf(v)), "fresh": obs0, "after_history": obs1})
		}
		// concurrency
		var wg sync.WaitGroup
		results := make([][]byte, 16)
		others := make([]interface{}, 16)
		for j := range others {
			others[j] = (&gen{r: rand.New(rand.NewSource(r.Int63())), wf: true}).genTop(tn)
		}
		for j := 0; j < 16; j++ {
			wg.Add(1)
			go func(j int) {
				defer wg.Done()
				if j%2 == 1 {
					implEncode(others[j])
				}
				_, results[j] = implEncode(v)
			}(j)
		}
		wg.Wait()
		for j := range results {
			if !bytes.Equal(results[j], b0) {
				rep.Violations = append(rep.Violations, map[string]interface{}{"kind": "concurrency-dependent", "value": showVal(reflect.ValueOf(v)), "fresh": obs0, "goroutine": j})
				break
			}
		}
		if len(rep.Samples) < 2 {
			rep.Samples = append(rep.Samples, map[string]interface{}{"type": tn, "bytes": len(b0)})
		}
	}
	encoderSessions(r, rep, *n)
	userTypeShapes(r, rep)
	embeddedShapes(rep)
	transplants(r, rep)
	wildcardTransplants(r, rep)
	tagValuesIgnored(r, rep)
	userSchemas(r, rep, 30+*n)
	rep.emit()
}

// encoderSessions (C02 / C13): ONE Encoder writing to ONE stream is handed a sequence of values, some of which it must
// reject.  Every value must come out exactly as a fresh Encoder emits it, a rejected value must add nothing, and what
// happened earlier on the Encoder - in particular a failure inside a nested structure - must not matter.
func encoderSessions(r *rand.Rand, rep *Report, n int) {
	types := sortedTypeNames()
	bad := func() interface{} {
		switch r.Intn(6) {
		case 0:
			return &kmip.Request{Header: kmip.RequestHeader{BatchCount: 1}, BatchItems: []kmip.RequestBatchItem{{Operation: kmip.OPERATION_GET}}} // nil required payload, deep inside
		case 1:
			return &kmip.Request{Header: kmip.RequestHeader{BatchCount: 1}, BatchItems: []kmip.RequestBatchItem{{Operation: kmip.OPERATION_GET, RequestPayload: 5}}}
		case 2:
			return &kmip.Response{Header: kmip.ResponseHeader{BatchCount: 1}, BatchItems: []kmip.ResponseBatchItem{{Operation: kmip.OPERATION_GET, ResponsePayload: map[string]int{}}}}
		case 3:
			return kmip.Attribute{Name: "Cryptographic Length", Value: 128} // int instead of int32
		case 4:
			return &BadTag{A: 1}
		default:
			return (*kmip.GetRequest)(nil)
		}
	}
	for i := 0; i < n/2+5; i++ {
		var stream bytes.Buffer
		e := kmip.NewEncoder(&stream)
		var seq []string
		for k := 0; k < 6; k++ {
			var v interface{}
			if r.Intn(3) == 0 {
				v = bad()
			} else {
				v = (&gen{r: r, wf: true}).genTop([]string{"Request", "Response", types[r.Intn(len(types))]}[r.Intn(3)])
			}
			_, fresh := implEncode(v)
			before := stream.Len()
			var err error
			panicked := ""
			func() {
				defer func() {
					if p := recover(); p != nil {
						panicked = firstLine(fmt.Sprint(p))
					}
				}()
				err = e.Encode(v)
			}()
			added := append([]byte(nil), stream.Bytes()[before:]...)
			seq = append(seq, firstN(showVal(reflect.ValueOf(&v).Elem()), 300))
			rep.Evaluations++
			rep.Distribution["encoder-session:step"]++
			problem := ""
			switch {
			case panicked != "":
				problem = "Encode panicked: " + panicked
			case fresh == nil && (err == nil || len(added) != 0):
				problem = fmt.Sprintf("a value a fresh Encoder rejects: err=%v, %d bytes reached the stream", err, len(added))
			case fresh != nil && (err != nil || !bytes.Equal(added, fresh)):
				problem = fmt.Sprintf("a value a fresh Encoder encodes to %d bytes: err=%v, %d bytes reached the stream (%s)", len(fresh), err, len(added), firstN(hexBytes(added), 200))
			}
			if problem != "" {
				if len(rep.Violations) < 12 {
					rep.Violations = append(rep.Violations, map[string]interface{}{"kind": "encoder-session", "what": "one Encoder reused for a sequence of values: step " + fmt.Sprint(k) + ": " + problem,
						"sequence": seq})
				}
				break
			}
		}
	}
}

// user-defined structure types (the library is generic): slices of interface{} whose elements have different
// dynamic types, and interface fields next to each other
type UserMixed struct {
	Items []interface{} `kmip:"ATTRIBUTE_VALUE"`
	Tail  int32         `kmip:"BATCH_COUNT"`
}
type UserPair struct {
	A interface{} `kmip:"ATTRIBUTE_VALUE,required"`
	B interface{} `kmip:"KEY_VALUE"`
	C interface{} `kmip:"ATTRIBUTE_VALUE"`
}

// user-defined structures that embed other structures (un-annotated: the library ignores such a field)
type UEmbInner struct {
	kmip.Tag `kmip:"CRYPTOGRAPHIC_PARAMETERS"`
	X        int32 `kmip:"CRYPTOGRAPHIC_LENGTH"`
}
type UPlainInner struct {
	D string `kmip:"DESCRIPTION"`
}
type UEmbLast struct {
	kmip.Tag `kmip:"TEMPLATE_ATTRIBUTE"`
	C        string `kmip:"COMMENT"`
	*UPlainInner
}
type UHolder2 struct {
	kmip.Tag `kmip:"REQUEST_PAYLOAD"`
	ID       string   `kmip:"UNIQUE_IDENTIFIER,required"`
	Details  UEmbLast `kmip:"TEMPLATE_ATTRIBUTE"`
}
type UEmbVal struct {
	kmip.Tag `kmip:"REQUEST_PAYLOAD"`
	UEmbInner
	Y int32 `kmip:"BATCH_COUNT"`
}
type UEmbPtr struct {
	kmip.Tag `kmip:"REQUEST_PAYLOAD"`
	*UEmbInner
	Y int32 `kmip:"BATCH_COUNT"`
}
type UEmbFirst struct {
	UEmbInner
	kmip.Tag `kmip:"RESPONSE_PAYLOAD"`
	Y        int32 `kmip:"BATCH_COUNT"`
}
type UHolder struct {
	kmip.Tag `kmip:"KEY_VALUE"`
	OptV     UEmbVal `kmip:"REQUEST_PAYLOAD"`
	OptP     UEmbPtr `kmip:"RESPONSE_PAYLOAD"`
	Z        int32   `kmip:"BATCH_COUNT,required"`
}

// embeddedShapes (C13 / C18): Encode and Decode of structures with embedded structures and embedded (nil) pointers never
// panic, and the structure goes out under the tag its OWN Tag annotation names, whatever the embedded type is annotated with
func embeddedShapes(rep *Report) {
	type tc struct {
		name string
		v    interface{}
		tag  uint32
	}
	cases := []tc{
		{"UEmbVal", UEmbVal{Y: 1}, uint32(kmip.REQUEST_PAYLOAD)}, {"UEmbVal-inner-set", UEmbVal{UEmbInner: UEmbInner{X: 5}, Y: 1}, uint32(kmip.REQUEST_PAYLOAD)},
		{"UEmbPtr-nil", UEmbPtr{Y: 1}, uint32(kmip.REQUEST_PAYLOAD)}, {"UEmbPtr-set", UEmbPtr{UEmbInner: &UEmbInner{X: 5}, Y: 1}, uint32(kmip.REQUEST_PAYLOAD)},
		{"UEmbPtr-nil-zero", UEmbPtr{}, uint32(kmip.REQUEST_PAYLOAD)}, {"*UEmbPtr-nil", &UEmbPtr{Y: 2}, uint32(kmip.REQUEST_PAYLOAD)},
		{"UEmbFirst", UEmbFirst{Y: 1}, uint32(kmip.RESPONSE_PAYLOAD)}, {"UEmbFirst-inner-set", UEmbFirst{UEmbInner: UEmbInner{X: 9}, Y: 1}, uint32(kmip.RESPONSE_PAYLOAD)},
		{"UHolder-zero-optionals", UHolder{Z: 1}, uint32(kmip.KEY_VALUE)}, {"UHolder-set", UHolder{OptV: UEmbVal{Y: 3}, OptP: UEmbPtr{UEmbInner: &UEmbInner{X: 1}, Y: 4}, Z: 1}, uint32(kmip.KEY_VALUE)},
		{"UHolder-ptr-nil-nonzero", UHolder{OptP: UEmbPtr{Y: 4}, Z: 1}, uint32(kmip.KEY_VALUE)},
		{"UEmbLast-nil", UEmbLast{C: "c"}, uint32(kmip.TEMPLATE_ATTRIBUTE)}, {"UEmbLast-zero", UEmbLast{}, uint32(kmip.TEMPLATE_ATTRIBUTE)},
		{"UEmbLast-set", UEmbLast{C: "c", UPlainInner: &UPlainInner{D: "d"}}, uint32(kmip.TEMPLATE_ATTRIBUTE)},
		{"UHolder2-details-zero", &UHolder2{ID: "42"}, uint32(kmip.REQUEST_PAYLOAD)}, {"UHolder2-details-comment", &UHolder2{ID: "42", Details: UEmbLast{C: "x"}}, uint32(kmip.REQUEST_PAYLOAD)},
		{"UHolder2-details-inner", &UHolder2{ID: "42", Details: UEmbLast{UPlainInner: &UPlainInner{D: "d"}}}, uint32(kmip.REQUEST_PAYLOAD)},
	}
	for _, c := range cases {
		var buf bytes.Buffer
		var err error
		panicked := ""
		func() {
			defer func() {
				if p := recover(); p != nil {
					panicked = firstLine(fmt.Sprint(p))
				}
			}()
			err = kmip.NewEncoder(&buf).Encode(c.v)
		}()
		rep.Evaluations++
		rep.Distribution["user-type:embedded"]++
		out := buf.Bytes()
		switch {
		case panicked != "":
			rep.Violations = append(rep.Violations, map[string]interface{}{"kind": "user-type", "what": "Encode panicked on a user-defined structure with an embedded structure / embedded pointer", "value": c.name, "panic": panicked})
			continue
		case err != nil && len(out) != 0:
			rep.Violations = append(rep.Violations, map[string]interface{}{"kind": "user-type", "what": "a failed Encode wrote bytes", "value": c.name})
		case err == nil && (len(out) < 8 || uint32(out[0])<<16|uint32(out[1])<<8|uint32(out[2]) != c.tag):
			rep.Violations = append(rep.Violations, map[string]interface{}{"kind": "user-type-tag", "what": "the structure is not emitted under the tag its own Tag annotation names",
				"value": c.name, "want_tag": fmt.Sprintf("%06x", c.tag), "got": firstN(hexBytes(out), 64)})
		}
		if err == nil && len(out) >= 8 {
			// and it decodes again into the same type without panicking
			rv := reflect.ValueOf(c.v)
			if rv.Kind() == reflect.Ptr {
				rv = rv.Elem()
			}
			pv := reflect.New(rv.Type())
			func() {
				defer func() {
					if p := recover(); p != nil {
						rep.Violations = append(rep.Violations, map[string]interface{}{"kind": "user-type", "what": "Decode panicked on the bytes Encode produced for a user-defined structure with an embedded structure", "value": c.name, "panic": firstLine(fmt.Sprint(p))})
					}
				}()
				if derr := kmip.NewDecoder(bytes.NewReader(out)).Decode(pv.Interface()); derr != nil {
					rep.Violations = append(rep.Violations, map[string]interface{}{"kind": "user-type", "what": "Decode rejects the bytes Encode produced for a user-defined structure with an embedded structure", "value": c.name, "error": derr.Error()})
				}
			}()
		}
	}
}

// a structure that arrives through a wildcard field (kmip:"-") is a plain value too: decoded, it equals the literal, and
// moved into an annotated field (or encoded on its own) it goes out under the tag the annotation names (C18, C02)
type UWildSrc struct {
	kmip.Tag `kmip:"RESPONSE_PAYLOAD"`
	ID       string    `kmip:"UNIQUE_IDENTIFIER,required"`
	V        kmip.Name `kmip:"ATTRIBUTE_VALUE"`
}
type UWild struct {
	kmip.Tag `kmip:"RESPONSE_PAYLOAD"`
	ID       string    `kmip:"UNIQUE_IDENTIFIER,required"`
	Any      kmip.Name `kmip:"-"`
}
type UNameHolder struct {
	kmip.Tag `kmip:"REQUEST_PAYLOAD"`
	N        kmip.Name `kmip:"NAME,required"`
	L        int32     `kmip:"CRYPTOGRAPHIC_LENGTH"`
}

func wildcardTransplants(r *rand.Rand, rep *Report) {
	add := func(what string, m map[string]interface{}) {
		m["kind"], m["what"] = "transplant", what
		if len(rep.Violations) < 12 {
			rep.Violations = append(rep.Violations, m)
		}
	}
	for k := 0; k < 8; k++ {
		lit := kmip.Name{Value: fmt.Sprintf("n%d", r.Intn(1000)), Type: kmip.Enum(1 + r.Intn(2))}
		_, src := implEncode(UWildSrc{ID: "7", V: lit})
		if src == nil {
			continue
		}
		var got UWild
		panicked := ""
		var derr error
		func() {
			defer func() {
				if p := recover(); p != nil {
					panicked = firstLine(fmt.Sprint(p))
				}
			}()
			derr = kmip.NewDecoder(bytes.NewReader(src)).Decode(&got)
		}()
		rep.Evaluations++
		rep.Distribution["transplant:wildcard"]++
		if panicked != "" {
			add("Decode panicked on a structure with a wildcard structure field", map[string]interface{}{"panic": panicked})
			continue
		}
		if derr != nil {
			continue // a library that does not decode through wildcard fields is not wrong
		}
		if !reflect.DeepEqual(got.Any, lit) {
			add("a structure decoded through a wildcard field differs from the value that was encoded", map[string]interface{}{"decoded": fmt.Sprintf("%+v", got.Any), "literal": fmt.Sprintf("%+v", lit)})
		}
		_, want := implEncode(UNameHolder{N: lit, L: 5})
		_, moved := implEncode(UNameHolder{N: got.Any, L: 5})
		if want != nil && !bytes.Equal(want, moved) {
			add("a structure decoded through a wildcard field and moved into an annotated field is not emitted under that field's tag", map[string]interface{}{"literal": hexBytes(want), "decoded_then_moved": hexBytes(moved)})
		}
		_, want = implEncode(lit)
		_, moved = implEncode(got.Any)
		if want != nil && !bytes.Equal(want, moved) {
			add("a structure decoded through a wildcard field, encoded on its own, is not emitted under the tag its Tag annotation names", map[string]interface{}{"literal": hexBytes(want), "decoded": hexBytes(moved)})
		}
	}
}

// setTagFields: every embedded Tag field of a value (recursively, through pointers, interfaces and slices) set to x
func setTagFields(v reflect.Value, x kmip.Tag, depth int) reflect.Value {
	if depth > 12 {
		return v
	}
	switch v.Kind() {
	case reflect.Ptr:
		if v.IsNil() {
			return v
		}
		p := reflect.New(v.Type().Elem())
		p.Elem().Set(setTagFields(v.Elem(), x, depth+1))
		return p
	case reflect.Interface:
		if v.IsNil() {
			return v
		}
		c := reflect.New(v.Type()).Elem()
		c.Set(setTagFields(v.Elem(), x, depth+1))
		return c
	case reflect.Slice:
		if v.IsNil() || v.Type() == tBytes {
			return v
		}
		c := reflect.MakeSlice(v.Type(), v.Len(), v.Len())
		for i := 0; i < v.Len(); i++ {
			c.Index(i).Set(setTagFields(v.Index(i), x, depth+1))
		}
		return c
	case reflect.Struct:
		if v.Type() == tTime {
			return v
		}
		c := reflect.New(v.Type()).Elem()
		c.Set(v)
		for i := 0; i < v.NumField(); i++ {
			f := v.Type().Field(i)
			if f.PkgPath != "" && !f.Anonymous {
				continue
			}
			if f.Type == tTag {
				if c.Field(i).CanSet() {
					c.Field(i).SetUint(uint64(x))
				}
				continue
			}
			if c.Field(i).CanSet() {
				c.Field(i).Set(setTagFields(v.Field(i), x, depth+1))
			}
		}
		return c
	}
	return v
}

// tagValuesIgnored (C18 / C02): the number a structure is written under comes from the annotations alone; whatever the
// embedded Tag fields of the value hold (nothing in the library sets them) changes no byte
func tagValuesIgnored(r *rand.Rand, rep *Report) {
	names := sortedTypeNames()
	for k := 0; k < 150; k++ {
		tn := names[r.Intn(len(names))]
		v := (&gen{r: r, wf: true}).genTop(tn)
		_, want := implEncode(v)
		if want == nil {
			continue
		}
		x := []kmip.Tag{kmip.ATTRIBUTE_VALUE, kmip.NAME, kmip.BATCH_ITEM, kmip.Tag(0x42ffff), kmip.Tag(1)}[r.Intn(5)]
		obs, got := implEncode(setTagFields(reflect.ValueOf(v), x, 0).Interface())
		rep.Evaluations++
		rep.Distribution["tag-values-ignored"]++
		if !bytes.Equal(got, want) && len(rep.Violations) < 12 {
			rep.Violations = append(rep.Violations, map[string]interface{}{"kind": "user-type-tag", "what": "the value held by the embedded Tag fields changes the encoding (the tag comes from the annotation)",
				"type": tn, "tag_value": fmt.Sprintf("%06x", uint32(x)), "want": firstN(hexBytes(want), 600), "got": firstN(obs, 600)})
		}
	}
}

// transplants (C19 / C02): a structure that came out of Decode is a plain value: moved into a field with another tag it goes
// on the wire under THAT field's tag.  For every structure type with two fields of one structure type under different
// tags: encode, decode, swap the two decoded fields, encode - and compare with encoding the literal with the fields swapped.
func transplants(r *rand.Rand, rep *Report) {
	for _, tn := range sortedTypeNames() {
		t := genTypes[tn]
		var idx []int
		for _, i := range kmipFields(t) {
			ft := t.Field(i).Type
			if ft.Kind() == reflect.Struct && ft != reflect.TypeOf(time.Time{}) {
				idx = append(idx, i)
			}
		}
		for a := 0; a < len(idx); a++ {
			for b := a + 1; b < len(idx); b++ {
				i, j := idx[a], idx[b]
				if t.Field(i).Type != t.Field(j).Type || t.Field(i).Tag.Get("kmip") == t.Field(j).Tag.Get("kmip") {
					continue
				}
				for k := 0; k < 3; k++ {
					v := (&gen{r: r, wf: true}).genTop(tn)
					rv := reflect.ValueOf(v)
					if rv.Kind() == reflect.Ptr {
						rv = rv.Elem()
					}
					_, enc := implEncode(rv.Interface())
					if enc == nil {
						continue
					}
					dec := reflect.New(t)
					if err := kmip.NewDecoder(bytes.NewReader(enc)).Decode(dec.Interface()); err != nil {
						continue
					}
					swap := func(x reflect.Value) reflect.Value {
						c := reflect.New(t).Elem()
						c.Set(x)
						tmp := reflect.New(t.Field(i).Type).Elem()
						tmp.Set(c.Field(i))
						c.Field(i).Set(c.Field(j))
						c.Field(j).Set(tmp)
						return c
					}
					_, want := implEncode(swap(rv).Interface())
					_, got := implEncode(swap(dec.Elem()).Interface())
					rep.Evaluations++
					rep.Distribution["transplant"]++
					if want != nil && !bytes.Equal(got, want) && len(rep.Violations) < 12 {
						rep.Violations = append(rep.Violations, map[string]interface{}{"kind": "transplant",
							"what": "a decoded structure moved into a field with another tag is not emitted under that field's tag (or not with the same bytes as the literal value)",
							"type": tn, "fields": t.Field(i).Name + " <-> " + t.Field(j).Name, "literal": hexBytes(want), "decoded_then_moved": hexBytes(got)})
					}
				}
			}
		}
	}
}

// userTypeShapes (C13 / C02): every ordered pair of dynamic element kinds in one []interface{} field: Encode must not
// panic; it fails iff one of the elements alone fails, then writes nothing; otherwise the elements are encoded
// independently of their neighbours (the body is the concatenation of the single-element bodies)
func userTypeShapes(r *rand.Rand, rep *Report) {
	elems := []struct {
		name string
		v    interface{}
	}{{"int32", int32(7)}, {"int64", int64(-9)}, {"enum", kmip.Enum(3)}, {"bool", true}, {"string", "abc"}, {"bytes", []byte{1, 2, 3}},
		{"time", time.Unix(1000, 0)}, {"struct", kmip.Name{Value: "n", Type: 1}}, {"ptr", &kmip.Name{Value: "p", Type: 2}},
		{"float64", 1.5}, {"int", 5}, {"nil", nil}, {"typednil", (*kmip.Name)(nil)}, {"map", map[string]int{}}, {"duration", 3 * time.Second}}
	encode := func(v interface{}) (out []byte, failed bool, panicked string) {
		var buf bytes.Buffer
		func() {
			defer func() {
				if p := recover(); p != nil {
					panicked = firstLine(fmt.Sprint(p))
				}
			}()
			if err := kmip.NewEncoder(&buf).Encode(v); err != nil {
				failed = true
			}
		}()
		return buf.Bytes(), failed, panicked
	}
	body := func(b []byte) []byte { // strip the 8-byte structure header and the trailing BATCH_COUNT item (16 bytes)
		if len(b) < 24 {
			return nil
		}
		return b[8 : len(b)-16]
	}
	single := map[string][]byte{}
	singleFails := map[string]bool{}
	for _, e := range elems {
		out, failed, p := encode(UserMixed{Items: []interface{}{e.v}, Tail: 1})
		rep.Evaluations++
		if p != "" {
			rep.Violations = append(rep.Violations, map[string]interface{}{"kind": "user-type", "what": "Encode panicked on a user-defined structure with a []interface{} field", "elements": e.name, "panic": p})
			continue
		}
		if failed && len(out) != 0 {
			rep.Violations = append(rep.Violations, map[string]interface{}{"kind": "user-type", "what": "a failed Encode wrote bytes", "elements": e.name})
		}
		singleFails[e.name] = failed
		single[e.name] = body(out)
	}
	for _, a := range elems {
		for _, b := range elems {
			for _, shape := range []string{"slice", "pair"} {
				var v interface{} = UserMixed{Items: []interface{}{a.v, b.v}, Tail: 1}
				if shape == "pair" {
					v = UserPair{A: a.v, B: b.v}
				}
				out, failed, p := encode(v)
				rep.Evaluations++
				rep.Nontrivial++
				rep.Distribution["user-type:"+shape]++
				name := shape + ":" + a.name + "," + b.name
				if p != "" {
					if len(rep.Violations) < 12 {
						rep.Violations = append(rep.Violations, map[string]interface{}{"kind": "user-type", "what": "Encode panicked on a user-defined structure whose interface-typed positions hold values of different dynamic types", "elements": name, "panic": p})
					}
					continue
				}
				if failed && len(out) != 0 && len(rep.Violations) < 12 {
					rep.Violations = append(rep.Violations, map[string]interface{}{"kind": "user-type", "what": "a failed Encode wrote bytes", "elements": name})
				}
				if shape != "slice" {
					continue
				}
				wantFail := singleFails[a.name] || singleFails[b.name]
				if failed != wantFail && len(rep.Violations) < 12 {
					rep.Violations = append(rep.Violations, map[string]interface{}{"kind": "user-type", "what": fmt.Sprintf("Encode of two elements fails=%v although the elements alone fail=%v/%v", failed, singleFails[a.name], singleFails[b.name]), "elements": name})
				}
				if !failed && !wantFail {
					want := append(append([]byte(nil), single[a.name]...), single[b.name]...)
					if !bytes.Equal(body(out), want) && len(rep.Violations) < 12 {
						rep.Violations = append(rep.Violations, map[string]interface{}{"kind": "user-type", "what": "the elements of a []interface{} field are not encoded independently of their neighbours",
							"elements": name, "got": hexBytes(body(out)), "want": hexBytes(want)})
					}
				}
			}
		}
	}
}
