package main

// race suite (C12): run with the harness built with -race.  Any number of simultaneous connections
// to one Server configured before serving, Shutdown at a random moment, and independent Encoder /
// Decoder / Client instances used from parallel goroutines.  The race detector's report (both
// stacks) goes to stderr; the check turns it into the replay.

import (
	"bytes"
	"context"
	"crypto/tls"
	"flag"
	"fmt"
	"io"
	"log"
	"math/rand"
	"net"
	"os"
	"reflect"
	"runtime"
	"sync"
	"time"

	kmip "github.com/smira/go-kmip"
)

func init() { suites["race"] = suiteRace }

func suiteRace(args []string) {
	fs := flag.NewFlagSet("race", flag.ExitOnError)
	seed := fs.Int64("seed", 1, "")
	rounds := fs.Int("n", 6, "")
	fs.String("dir", "", "")
	fs.Parse(args)
	r := rand.New(rand.NewSource(*seed))
	rep := &Report{Suite: "race", Seed: *seed, Distribution: map[string]int{}}
	rep.Rule = "each evaluation is one round: a Server with handlers configured before Serve, 8 concurrent in-memory sessions x 5 requests, Shutdown at a random moment, in parallel with 8 goroutines encoding/decoding overlapping types and (every third round) 3 TLS clients, followed by 12 runs of Shutdown with an ended / ending context against 6 sessions that are closing at that moment; all rounds differ by their seed"
	// a deadlock inside the library (a misused synchronisation primitive) must not hang the check: every round runs under a
	// watchdog; when it fires, the goroutine dump is the replay
	roundDone := make(chan struct{}, 1)
	watchdog := func(what string) {
		select {
		case <-roundDone:
		case <-time.After(90 * time.Second):
			buf := make([]byte, 1<<20)
			buf = buf[:runtime.Stack(buf, true)]
			rep.Violations = append(rep.Violations, map[string]interface{}{"kind": "race-hang", "what": "the library stopped making progress (deadlock / misuse of a synchronisation primitive) during " + what,
				"goroutines": firstN(string(buf), 12000)})
			rep.emit()
			os.Exit(0)
		}
	}
	for round := 0; round < *rounds; round++ {
		go watchdog(fmt.Sprintf("round %d: 8 sessions + parallel codec use + Shutdown", round))
		cfg := sessionCfg{rt: true, wt: true, sa: "ok", ra: true, ops: []kmip.Enum{kmip.OPERATION_GET, kmip.OPERATION_CREATE}}
		ss := newScriptedServer(cfg)
		var wg sync.WaitGroup
		// sessions
		for i := 1; i <= 8; i++ {
			c := genSessionCase(rand.New(rand.NewSource(r.Int63())))
			c.cfg = cfg
			c.pipeline = i%2 == 0
			wg.Add(1)
			go func(i int, c sessionCase) {
				defer wg.Done()
				mc := newMemConn("race")
				sid := ""
				func() {
					ss.mu.Lock()
					defer ss.mu.Unlock()
					sid = "x"
				}()
				_ = sid
				ss.lis.ch <- acceptResult{conn: mc}
				mc.peerSend(c.input)
				mc.waitUntil(300*time.Millisecond, func() bool { return mc.localClosed || (mc.readBlocked && len(mc.in) == 0) })
				mc.peerClose()
				mc.waitUntil(time.Second, func() bool { return mc.localClosed })
			}(i, c)
		}
		// parallel codec use
		for g := 0; g < 8; g++ {
			wg.Add(1)
			go func(sd int64) {
				defer wg.Done()
				rr := rand.New(rand.NewSource(sd))
				for k := 0; k < 30; k++ {
					v := (&gen{r: rr, wf: true}).genTop([]string{"Request", "Response", "GetResponse", "TemplateAttribute"}[k%4])
					_, b := implEncode(v)
					if b != nil {
						rv := reflect.ValueOf(v)
						if rv.Kind() == reflect.Ptr {
							rv = rv.Elem()
						}
						pv := reflect.New(rv.Type())
						kmip.NewDecoder(bytes.NewReader(b)).Decode(pv.Interface())
					}
				}
			}(r.Int63())
		}
		// shutdown at a random moment
		wg.Add(1)
		go func(d time.Duration) {
			defer wg.Done()
			time.Sleep(d)
			ctx, cancel := contextWithTimeout(2 * time.Second)
			defer cancel()
			ss.srv.Shutdown(ctx)
		}(time.Duration(r.Intn(3000)) * time.Microsecond)
		// TLS clients against a real TLS server of their own
		if round%3 == 0 {
			wg.Add(1)
			go func() {
				defer wg.Done()
				raceTLS()
			}()
		}
		wg.Wait()
		select {
		case <-ss.served:
		case <-time.After(3 * time.Second):
			rep.Violations = append(rep.Violations, map[string]interface{}{"kind": "race-serve-stuck", "round": round})
		}
		roundDone <- struct{}{}
		rep.Evaluations++
		rep.Nontrivial++
		rep.Distribution["rounds"]++
		// Shutdown whose context ends (or has ended) while sessions are open and are closing at that very moment
		go watchdog("Shutdown with an ending context against closing sessions")
		for k := 0; k < 12; k++ {
			raceShutdownExpiry(rand.New(rand.NewSource(r.Int63())), k)
			rep.Distribution["shutdown-ctx-expiry"]++
		}
		roundDone <- struct{}{}
		go watchdog("a batch in flight (slow user operation followed by the built-in Discover Versions) while Shutdown and a new connection arrive")
		raceBatchInFlight()
		roundDone <- struct{}{}
		rep.Distribution["batch-in-flight"]++
	}
	rep.Samples = append(rep.Samples, map[string]interface{}{"round": "8 sessions x 5 requests + 8 codec goroutines + Shutdown at a random moment"})
	rep.emit()
}

// raceShutdownExpiry: idle sessions, then - at once - their peers go away and Shutdown runs with a context that is
// already cancelled / expires within microseconds: every path of Shutdown that runs after the context ended overlaps
// with sessions unregistering themselves
func raceShutdownExpiry(r *rand.Rand, k int) {
	srv := &kmip.Server{Log: log.New(io.Discard, "", 0)}
	lis := newMemListener()
	init := make(chan struct{})
	served := make(chan error, 1)
	go func() { served <- srv.Serve(lis, init) }()
	<-init
	var conns []*memConn
	for i := 0; i < 6; i++ {
		mc := newMemConn("expiry")
		conns = append(conns, mc)
		lis.ch <- acceptResult{conn: mc}
	}
	for _, mc := range conns {
		mc.waitUntil(time.Second, func() bool { return mc.readBlocked || mc.localClosed })
	}
	var wg sync.WaitGroup
	start := make(chan struct{})
	for _, mc := range conns {
		wg.Add(1)
		go func(mc *memConn, d time.Duration) {
			defer wg.Done()
			<-start
			time.Sleep(d)
			mc.peerClose()
		}(mc, time.Duration(r.Intn(200))*time.Microsecond)
	}
	wg.Add(1)
	go func() {
		defer wg.Done()
		<-start
		var ctx context.Context
		var cancel context.CancelFunc
		switch k % 3 {
		case 0:
			ctx, cancel = context.WithCancel(context.Background())
			cancel()
		case 1:
			ctx, cancel = context.WithTimeout(context.Background(), time.Duration(1+r.Intn(150))*time.Microsecond)
		default:
			ctx, cancel = context.WithCancel(context.Background())
			go func() { time.Sleep(time.Duration(r.Intn(100)) * time.Microsecond); cancel() }()
		}
		srv.Shutdown(ctx)
		cancel()
	}()
	close(start)
	wg.Wait()
	for _, mc := range conns {
		mc.waitUntil(time.Second, func() bool { return mc.localClosed })
	}
	select {
	case <-served:
	case <-time.After(2 * time.Second):
	}
}

// raceBatchInFlight: one session is in the middle of a batch [slow user operation, built-in Discover Versions] while a new
// connection is accepted and Shutdown is called: everything must still complete
func raceBatchInFlight() {
	srv := &kmip.Server{Log: log.New(io.Discard, "", 0)}
	entered := make(chan struct{})
	release := make(chan struct{})
	srv.Handle(kmip.OPERATION_GET, func(ctx *kmip.RequestContext, item *kmip.RequestBatchItem) (interface{}, error) {
		close(entered)
		<-release
		return kmip.GetResponse{UniqueIdentifier: "x"}, nil
	})
	lis := newMemListener()
	init := make(chan struct{})
	served := make(chan error, 1)
	go func() { served <- srv.Serve(lis, init) }()
	<-init
	mc := newMemConn("batch")
	lis.ch <- acceptResult{conn: mc}
	req := kmip.Request{Header: kmip.RequestHeader{Version: kmip.ProtocolVersion{Major: 1, Minor: 4}, BatchCount: 2},
		BatchItems: []kmip.RequestBatchItem{{Operation: kmip.OPERATION_GET, RequestPayload: kmip.GetRequest{UniqueIdentifier: "k"}},
			{Operation: kmip.OPERATION_DISCOVER_VERSIONS, RequestPayload: kmip.DiscoverVersionsRequest{}}}}
	_, b := implEncode(&req)
	mc.peerSend(b)
	<-entered
	// a writer on the server's state arrives while the batch is in flight: a new connection, then Shutdown
	mc2 := newMemConn("late")
	select {
	case lis.ch <- acceptResult{conn: mc2}:
	case <-time.After(time.Second):
	}
	shDone := make(chan struct{})
	go func() {
		ctx, cancel := contextWithTimeout(20 * time.Second)
		defer cancel()
		srv.Shutdown(ctx)
		close(shDone)
	}()
	time.Sleep(5 * time.Millisecond)
	close(release)
	mc.waitUntil(30*time.Second, func() bool { return len(splitMessages(mc.out)) >= 1 || mc.localClosed })
	mc.peerClose()
	mc2.peerClose()
	<-shDone
	<-served
}

func raceTLS() {
	p := getPKI()
	scfg := clientServerTLS(p)
	srv := &kmip.Server{TLSConfig: scfg, Log: log.New(io.Discard, "", 0), ReadTimeout: time.Second, WriteTimeout: time.Second}
	l, err := tlsListen(scfg)
	if err != nil {
		return
	}
	init := make(chan struct{})
	served := make(chan error, 1)
	go func() { served <- srv.Serve(l, init) }()
	<-init
	var wg sync.WaitGroup
	for i := 0; i < 3; i++ {
		wg.Add(1)
		go func() {
			defer wg.Done()
			ccfg := clientTLS()
			ccfg.Certificates = append(ccfg.Certificates, p.client["valid"])
			c := &kmip.Client{Endpoint: l.Addr().String(), TLSConfig: ccfg, ReadTimeout: time.Second, WriteTimeout: time.Second}
			if err := c.Connect(); err != nil {
				return
			}
			defer c.Close()
			for k := 0; k < 3; k++ {
				c.DiscoverVersions(nil)
			}
		}()
	}
	// connections that are accepted but whose TLS handshake has not finished when Shutdown comes (the client is slow, or just
	// a port scanner): registration of a session must be ordered before Shutdown's Wait whatever the peer does
	for i := 0; i < 6; i++ {
		srv2 := &kmip.Server{TLSConfig: scfg, Log: log.New(io.Discard, "", 0), ReadTimeout: 200 * time.Millisecond, WriteTimeout: 200 * time.Millisecond}
		l2, err := tlsListen(scfg)
		if err != nil {
			break
		}
		init2 := make(chan struct{})
		served2 := make(chan error, 1)
		go func() { served2 <- srv2.Serve(l2, init2) }()
		<-init2
		var raws []net.Conn
		for k := 0; k < 3; k++ {
			if raw, err := net.DialTimeout("tcp", l2.Addr().String(), time.Second); err == nil {
				raws = append(raws, raw)
			}
		}
		time.Sleep(time.Duration(i) * 300 * time.Microsecond)
		ctx2, cancel2 := contextWithTimeout(2 * time.Second)
		srv2.Shutdown(ctx2)
		cancel2()
		for _, raw := range raws {
			raw.Close()
		}
		<-served2
	}
	// independent Clients that share ONE *tls.Config (a tls.Config may be shared: neither crypto/tls nor a library built
	// on it writes to it), host name left to be derived from the endpoint, by name and by address
	shared := &tls.Config{RootCAs: p.pool}
	kmip.DefaultClientTLSConfig(shared)
	shared.Certificates = append(shared.Certificates, p.client["valid"])
	_, port, _ := net.SplitHostPort(l.Addr().String())
	for i := 0; i < 4; i++ {
		wg.Add(1)
		endpoint := []string{"localhost:" + port, "127.0.0.1:" + port}[i%2]
		go func() {
			defer wg.Done()
			c := &kmip.Client{Endpoint: endpoint, TLSConfig: shared, ReadTimeout: time.Second, WriteTimeout: time.Second}
			if err := c.Connect(); err != nil {
				return
			}
			defer c.Close()
			c.DiscoverVersions(nil)
		}()
	}
	wg.Wait()
	ctx, cancel := contextWithTimeout(2 * time.Second)
	srv.Shutdown(ctx)
	cancel()
	<-served
}
