package main

// Random user-defined structure types (reflect.StructOf): the library is generic over annotated Go structures, so
// Encode / Decode are exercised on schemas nobody wrote by hand, against the independent serialiser of codec.go.

import (
	"bytes"
	"fmt"
	"math/rand"
	"reflect"
	"time"

	kmip "github.com/smira/go-kmip"
)

var userTagNames = []string{"UNIQUE_IDENTIFIER", "COMMENT", "DESCRIPTION", "CRYPTOGRAPHIC_LENGTH", "BATCH_COUNT", "KEY_VALUE",
	"ATTRIBUTE_VALUE", "NAME", "OBJECT_TYPE", "OPERATION", "ATTRIBUTE_INDEX", "REQUEST_PAYLOAD", "RESPONSE_PAYLOAD",
	"TEMPLATE_ATTRIBUTE", "ATTRIBUTE", "ITERATION_COUNT", "SALT", "LAST_CHANGE_DATE", "LEASE_TIME", "KEY_BLOCK", "NAME_VALUE", "NAME_TYPE"}

var userLeafTypes = []reflect.Type{tInt32, tInt64, tEnum, tBool, tString, tBytes, tTime, tDuration, reflect.TypeOf((*interface{})(nil)).Elem()}

// user-defined types of the core kinds (and some kinds the library does not support): whatever the library makes of
// them - an "unsupported type" error today - it must not panic, neither in Encode nor in Decode
type hInt32 int32
type hInt64 int64
type hUint32 uint32
type hBool bool
type hString string
type hBytes []byte
type hFloat float64
type hMap map[string]int32

var userNamedLeafTypes = []reflect.Type{reflect.TypeOf(hInt32(0)), reflect.TypeOf(hInt64(0)), reflect.TypeOf(hUint32(0)), reflect.TypeOf(hBool(false)),
	reflect.TypeOf(hString("")), reflect.TypeOf(hBytes(nil)), reflect.TypeOf(hFloat(0)), reflect.TypeOf(hMap(nil)), reflect.TypeOf(int(0)), reflect.TypeOf(uint8(0))}

// twinLeaf: the core type whose wire form a user-defined type of that kind would have
var twinLeaf = map[reflect.Type]reflect.Type{reflect.TypeOf(hInt32(0)): tInt32, reflect.TypeOf(hInt64(0)): tInt64, reflect.TypeOf(hUint32(0)): tEnum,
	reflect.TypeOf(hBool(false)): tBool, reflect.TypeOf(hString("")): tString, reflect.TypeOf(hBytes(nil)): tBytes, reflect.TypeOf(hFloat(0)): tInt64,
	reflect.TypeOf(hMap(nil)): tString, reflect.TypeOf(int(0)): tInt32, reflect.TypeOf(uint8(0)): tInt32}

// twinOf: the same structure type with every user-defined leaf replaced by its core twin (the type itself if there is none)
func twinOf(t reflect.Type) reflect.Type {
	if tw, ok := twinLeaf[t]; ok {
		return tw
	}
	switch {
	case t == tTime || t == tBytes || t == tTag:
		return t
	case t.Kind() == reflect.Slice:
		if e := twinOf(t.Elem()); e != t.Elem() {
			return reflect.SliceOf(e)
		}
	case t.Kind() == reflect.Struct:
		changed := false
		var fields []reflect.StructField
		for i := 0; i < t.NumField(); i++ {
			f := t.Field(i)
			if ft := twinOf(f.Type); ft != f.Type {
				f.Type = ft
				changed = true
			}
			fields = append(fields, reflect.StructField{Name: f.Name, Type: f.Type, Tag: f.Tag})
		}
		if changed {
			return reflect.StructOf(fields)
		}
	}
	return t
}

type userSchemaGen struct {
	named      bool // user-defined leaf types allowed (types built meanwhile are kept apart: builtNamed)
	builtNamed []reflect.Type
	r     *rand.Rand
	built []reflect.Type
}

func (g *userSchemaGen) rb() []byte {
	b := make([]byte, g.r.Intn(19))
	g.r.Read(b)
	return b
}

func (g *userSchemaGen) tagName(used map[string]bool) string {
	for k := 0; k < 50; k++ {
		n := userTagNames[g.r.Intn(len(userTagNames))]
		if _, ok := tagByName[n]; ok && !used[n] {
			used[n] = true
			return n
		}
	}
	return "COMMENT"
}

func (g *userSchemaGen) buildType(depth int) reflect.Type {
	var fields []reflect.StructField
	used := map[string]bool{}
	if g.r.Intn(2) == 0 {
		fields = append(fields, reflect.StructField{Name: "T", Type: tTag, Tag: reflect.StructTag(fmt.Sprintf(`kmip:"%s"`, g.tagName(map[string]bool{})))})
	}
	n := 1 + g.r.Intn(5)
	for i := 0; i < n; i++ {
		var ft reflect.Type
		switch k := g.r.Intn(10); {
		case g.named && g.r.Intn(5) == 0:
			ft = userNamedLeafTypes[g.r.Intn(len(userNamedLeafTypes))]
			if g.r.Intn(2) == 0 {
				ft = reflect.SliceOf(ft)
			}
		case k < 6 || depth >= 2:
			ft = userLeafTypes[g.r.Intn(len(userLeafTypes))]
		case k < 8:
			ft = g.buildType(depth + 1)
		default:
			if g.r.Intn(2) == 0 {
				ft = reflect.SliceOf(userLeafTypes[g.r.Intn(len(userLeafTypes))])
			} else {
				ft = reflect.SliceOf(g.buildType(depth + 1))
			}
		}
		ann := ""
		if g.r.Intn(8) != 0 { // an un-annotated field is ignored by the library
			ann = g.tagName(used)
			if g.r.Intn(3) == 0 {
				ann += ",required"
			}
			ann = fmt.Sprintf(`kmip:"%s"`, ann)
		}
		fields = append(fields, reflect.StructField{Name: fmt.Sprintf("F%d", i), Type: ft, Tag: reflect.StructTag(ann)})
	}
	t := reflect.StructOf(fields)
	if g.named {
		g.builtNamed = append(g.builtNamed, t)
	} else {
		g.built = append(g.built, t)
	}
	return t
}

func (g *userSchemaGen) dynValue() reflect.Value {
	switch g.r.Intn(12) {
	case 0:
		return reflect.ValueOf(int32(g.r.Int31() - 1<<30))
	case 1:
		return reflect.ValueOf(int64(g.r.Int63()) - 1<<62)
	case 2:
		return reflect.ValueOf(kmip.Enum(g.r.Uint32()))
	case 3:
		return reflect.ValueOf(g.r.Intn(2) == 0)
	case 4:
		return reflect.ValueOf(string(g.rb()))
	case 5:
		return reflect.ValueOf(g.rb())
	case 6:
		return reflect.ValueOf(time.Unix(int64(g.r.Int31()), 0))
	case 7, 8:
		pool := g.built
		if g.named {
			pool = append(append([]reflect.Type(nil), g.built...), g.builtNamed...)
		}
		if len(pool) > 0 {
			t := pool[g.r.Intn(len(pool))]
			v := g.value(t, 2)
			if g.r.Intn(2) == 0 {
				p := reflect.New(t)
				p.Elem().Set(v)
				return p
			}
			return v
		}
		return reflect.ValueOf(int32(1))
	case 9:
		return reflect.ValueOf(1.5) // unsupported
	case 10:
		return reflect.ValueOf(7) // unsupported (int)
	default:
		return reflect.ValueOf(time.Duration(g.r.Intn(100000)) * time.Second)
	}
}

func (g *userSchemaGen) value(t reflect.Type, depth int) reflect.Value {
	v := reflect.New(t).Elem()
	switch {
	case t == tInt32:
		v.SetInt(int64(g.r.Int31()) - 1<<30)
	case t == tInt64:
		v.SetInt(g.r.Int63() - 1<<62)
	case t == tEnum:
		v.SetUint(uint64(g.r.Uint32()))
	case t == tDuration:
		v.SetInt(int64(time.Duration(g.r.Intn(1000000)) * time.Second))
	case t == tBool:
		v.SetBool(g.r.Intn(2) == 0)
	case t == tString:
		v.SetString(string(g.rb()))
	case t == tBytes:
		if g.r.Intn(4) != 0 {
			v.SetBytes(g.rb())
		}
	case t == tTime:
		if g.r.Intn(4) != 0 {
			v.Set(reflect.ValueOf(time.Unix(int64(g.r.Int31()), 0)))
		}
	case t == tTag:
	case t.Kind() == reflect.Int32 || t.Kind() == reflect.Int64 || t.Kind() == reflect.Int:
		v.SetInt(int64(g.r.Intn(5)))
	case t.Kind() == reflect.Uint32 || t.Kind() == reflect.Uint8:
		v.SetUint(uint64(g.r.Intn(5)))
	case t.Kind() == reflect.Bool:
		v.SetBool(g.r.Intn(2) == 0)
	case t.Kind() == reflect.String:
		v.SetString(string(g.rb()))
	case t.Kind() == reflect.Float64:
		v.SetFloat(float64(g.r.Intn(3)))
	case t.Kind() == reflect.Map:
		if g.r.Intn(2) == 0 {
			v.Set(reflect.MakeMap(t))
		}
	case t.Kind() == reflect.Slice && t.Elem().Kind() == reflect.Uint8:
		if g.r.Intn(3) != 0 {
			v.SetBytes(g.rb())
		}
	case t.Kind() == reflect.Array && t.Elem().Kind() == reflect.Uint8:
		if g.r.Intn(4) != 0 { // a non-zero byte array (unsupported today; whatever is made of it, by value or by pointer, no panic)
			for i := 0; i < v.Len(); i++ {
				v.Index(i).SetUint(uint64(1 + g.r.Intn(200)))
			}
		}
	case t.Kind() == reflect.Interface:
		if g.r.Intn(5) != 0 {
			v.Set(g.dynValue())
		}
	case t.Kind() == reflect.Slice:
		n := g.r.Intn(4)
		if depth > 3 {
			n = 0
		}
		for i := 0; i < n; i++ {
			v = reflect.Append(v, g.value(t.Elem(), depth+1))
		}
	case t.Kind() == reflect.Struct:
		if g.r.Intn(6) == 0 {
			return v // all zero
		}
		for i := 0; i < t.NumField(); i++ {
			if g.r.Intn(4) != 0 && v.Field(i).CanSet() {
				v.Field(i).Set(g.value(t.Field(i).Type, depth+1))
			}
		}
	}
	return v
}

func hasInterface(t reflect.Type) bool {
	switch t.Kind() {
	case reflect.Interface:
		return true
	case reflect.Slice:
		return t != tBytes && hasInterface(t.Elem())
	case reflect.Struct:
		if t == tTime {
			return false
		}
		for i := 0; i < t.NumField(); i++ {
			if hasInterface(t.Field(i).Type) {
				return true
			}
		}
	}
	return false
}

// decodable: Decode demands at least one element of a required sequence, which Encode does not (C01 counts such a
// value as not well-formed); only values without an empty required sequence are expected to decode again
func decodable(v reflect.Value) bool {
	t := v.Type()
	switch {
	case t == tTime || t == tBytes:
		return true
	case t.Kind() == reflect.Struct:
		for _, i := range kmipFields(t) {
			f := t.Field(i)
			fv := v.Field(i)
			if fv.Kind() == reflect.Slice && fv.Type() != tBytes && containsOpt(f.Tag.Get("kmip"), "required") && fv.Len() == 0 {
				return false
			}
			if !decodable(fv) {
				return false
			}
		}
	case t.Kind() == reflect.Slice:
		for i := 0; i < v.Len(); i++ {
			if !decodable(v.Index(i)) {
				return false
			}
		}
	}
	return true
}

// userSchemas: count random types x a few values each
func userSchemas(r *rand.Rand, rep *Report, count int) {
	g := &userSchemaGen{r: r}
	add := func(kind, what string, t reflect.Type, v reflect.Value, extra map[string]interface{}) {
		if len(rep.Violations) >= 12 {
			return
		}
		m := map[string]interface{}{"kind": kind, "what": what, "type": t.String(), "value": firstN(fmt.Sprintf("%+v", v.Interface()), 600)}
		for k, x := range extra {
			m[k] = x
		}
		rep.Violations = append(rep.Violations, m)
	}
	for i := 0; i < count; i++ {
		g.named = i%3 == 2
		t := g.buildType(0)
		if tw := twinOf(t); tw != t {
			// bytes a structure of the twin type (core types in place of the user-defined ones) encodes to, decoded into the
			// type with the user-defined leaves: an error ("unsupported type") or a value, never a panic
			for k := 0; k < 4; k++ {
				var buf bytes.Buffer
				if err := kmip.NewEncoder(&buf).Encode(g.value(tw, 0).Interface()); err != nil || buf.Len() == 0 {
					continue
				}
				pv := reflect.New(t)
				rep.Evaluations++
				rep.Distribution["user-schema:decode-into-named-kinds"]++
				func() {
					defer func() {
						if p := recover(); p != nil {
							add("user-schema", "Decode panicked on a target structure with fields of user-defined types (bytes: the same structure with core types)", t, pv.Elem(),
								map[string]interface{}{"panic": firstLine(fmt.Sprint(p)), "bytes": firstN(hexBytes(buf.Bytes()), 1200)})
						}
					}()
					kmip.NewDecoder(bytes.NewReader(buf.Bytes())).Decode(pv.Interface())
				}()
			}
		}
		for k := 0; k < 4; k++ {
			v := g.value(t, 0)
			var buf bytes.Buffer
			var err error
			panicked := ""
			func() {
				defer func() {
					if p := recover(); p != nil {
						panicked = firstLine(fmt.Sprint(p))
					}
				}()
				if k%2 == 0 {
					err = kmip.NewEncoder(&buf).Encode(v.Interface())
				} else {
					p := reflect.New(t)
					p.Elem().Set(v)
					err = kmip.NewEncoder(&buf).Encode(p.Interface())
				}
			}()
			rep.Evaluations++
			rep.Distribution["user-schema:encode"]++
			out := buf.Bytes()
			if panicked != "" {
				add("user-schema", "Encode panicked on a value of a user-defined structure type", t, v, map[string]interface{}{"panic": panicked})
				continue
			}
			if err != nil && len(out) != 0 {
				add("user-schema", "a failed Encode wrote bytes", t, v, map[string]interface{}{"error": err.Error(), "written": len(out)})
			}
			// (the independent serialiser knows the core types only: for a type with user-defined or unsupported leaves the
			// library may reject the whole type, wherever the leaf sits - only "no panic, nothing written" is demanded there)
			want, ok := indepOpts{}.indepTop(v.Interface())
			if ok && !g.named && (err != nil || !bytes.Equal(out, want)) {
				add("user-schema-bytes", "Encode of a value of a user-defined structure type differs from the independent TTLV serialisation", t, v,
					map[string]interface{}{"error": fmt.Sprint(err), "got": firstN(hexBytes(out), 1200), "want": firstN(hexBytes(want), 1200)})
				continue
			}
			if err == nil && !hasInterface(t) && decodable(v) {
				rep.Nontrivial++
				pv := reflect.New(t)
				func() {
					defer func() {
						if p := recover(); p != nil {
							add("user-schema", "Decode panicked on the bytes Encode produced for a user-defined structure type", t, v, map[string]interface{}{"panic": firstLine(fmt.Sprint(p))})
						}
					}()
					if derr := kmip.NewDecoder(bytes.NewReader(out)).Decode(pv.Interface()); derr != nil {
						add("user-schema-bytes", "Decode rejects the bytes Encode produced for a user-defined structure type without interface fields", t, v, map[string]interface{}{"error": derr.Error(), "bytes": firstN(hexBytes(out), 1200)})
						return
					}
					var again bytes.Buffer
					if eerr := kmip.NewEncoder(&again).Encode(pv.Interface()); eerr != nil || !bytes.Equal(again.Bytes(), out) {
						add("user-schema-bytes", "re-encoding the decoded value of a user-defined structure type gives other bytes", t, v, map[string]interface{}{"bytes": firstN(hexBytes(out), 1200), "again": firstN(hexBytes(again.Bytes()), 1200)})
					}
				}()
				rep.Distribution["user-schema:roundtrip"]++
			}
		}
	}
}
