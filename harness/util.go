package main

import (
	"context"
	"time"
)

func contextWithTimeout(d time.Duration) (context.Context, context.CancelFunc) {
	return context.WithTimeout(context.Background(), d)
}
