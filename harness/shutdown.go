package main

// shutdown suite (C11): forced schedules.  The listener holds every dequeued connection at a gate
// ("after Accept returns, before the session is registered") and its Close at another ("after
// Shutdown signalled, while it closes the listener"); sessions are started / ended by the harness;
// the context is cancelled on demand.  Every well-formed token sequence up to a length bound is run
// against the real server and against the extracted interleaving model.
//
//	c  a client connects (and, if the acceptor is waiting in Accept, its Accept dequeues it)
//	r  the held connection is released: Serve registers it (or finds Shutdown signalled)
//	0 1  the peer of session 0 / 1 goes away: the session runs up to its conn.Close()
//	a b  the Close of session 0 / 1 is let through (then the session finishes)
//	q w  the peer of session 0 / 1 sends a request; its operation handler blocks (request in flight)
//	h j  the handler of session 0 / 1 is released: the response must reach the peer
//	S  Shutdown is called and runs until it is closing the listener
//	k  the listener close is let through: Shutdown goes on to wait
//	x  the context ends
//	V  Serve is called (schedules without V start with Serve already running; with V, what precedes it happens before)

import (
	"context"
	"crypto/tls"
	"flag"
	"fmt"
	"io"
	"log"
	"net"
	"strings"
	"sync"
	"sync/atomic"
	"time"

	kmip "github.com/smira/go-kmip"
)

func init() { suites["shutdown"] = suiteShutdown }

type shutdownRun struct {
	srv          *kmip.Server
	lis          *memListener
	conns        []*memConn
	served       chan error
	serveRes     string
	shRes        string
	shDone       chan error
	cancel       context.CancelFunc
	ctx          context.Context
	shStarted    bool
	nReleased    int
	problems     []string
	shReturnedAt time.Time
	mu           sync.Mutex
	hgate        [2]*gate // the operation handler of session i waits here
}

// settleFactor stretches the polling that decides "everything that can run has run": the confirmation pass of a
// disagreeing schedule uses a larger one, so that a loaded machine cannot produce a false alarm
var settleFactor = 1

func wait(d time.Duration, pred func() bool) bool {
	deadline := time.Now().Add(d)
	for !pred() {
		if time.Now().After(deadline) {
			return false
		}
		time.Sleep(100 * time.Microsecond)
	}
	return true
}

func (r *shutdownRun) heldCount() int {
	r.lis.mu.Lock()
	defer r.lis.mu.Unlock()
	return len(r.lis.held)
}

func (r *shutdownRun) poll() {
	if r.serveRes == "" {
		select {
		case err := <-r.served:
			r.serveRes = resultName(err)
		default:
		}
	}
	if r.shStarted && r.shRes == "" {
		select {
		case err := <-r.shDone:
			if err == nil {
				r.shRes = "nil"
			} else {
				r.shRes = "ctx"
			}
			r.shReturnedAt = time.Now()
		default:
		}
	}
}

func gateState(g *gate) string {
	if g == nil {
		return ""
	}
	select {
	case <-g.arrived:
		select {
		case <-g.released:
			return ""
		default:
			return "inflight"
		}
	default:
		return ""
	}
}

func (r *shutdownRun) connStateOf(i int) string {
	st := connState(r.conns[i])
	if st == "running" && i < 2 && gateState(r.hgate[i]) == "inflight" {
		st = "inflight"
	}
	r.conns[i].mu.Lock()
	n := len(splitMessages(r.conns[i].out))
	r.conns[i].mu.Unlock()
	return fmt.Sprintf("%s:%d", st, n)
}

func connState(c *memConn) string {
	c.mu.Lock()
	defer c.mu.Unlock()
	switch {
	case (c.localClosed || c.closing) && c.addrCalls == 0:
		return "late"
	case c.localClosed:
		return "ended"
	case c.addrCalls > 0:
		return "running"
	}
	return "none"
}

func runShutdownSeq(seq string) (obs string, problems []string) {
	r := &shutdownRun{served: make(chan error, 1), shDone: make(chan error, 1)}
	r.srv = &kmip.Server{Log: log.New(io.Discard, "", 0)}
	r.hgate = [2]*gate{newGate("handler-0"), newGate("handler-1")}
	r.srv.Handle(kmip.OPERATION_GET, func(req *kmip.RequestContext, item *kmip.RequestBatchItem) (interface{}, error) {
		id := item.RequestPayload.(kmip.GetRequest).UniqueIdentifier
		if id == "0" || id == "1" {
			r.hgate[int(id[0]-'0')].arrive()
		}
		return kmip.GetResponse{UniqueIdentifier: id}, nil
	})
	r.lis = newMemListener()
	r.lis.holdAccepts = true
	r.lis.closeGate = newGate("listener-close")
	r.ctx, r.cancel = context.WithCancel(context.Background())
	defer r.cancel()
	serving := false
	startServe := func() {
		if serving {
			return
		}
		serving = true
		init := make(chan struct{})
		go func() { r.served <- r.srv.Serve(r.lis, init) }()
		<-init
	}
	if !strings.Contains(seq, "V") {
		startServe()
	}
	settle := func() {
		// let everything that can run on its own run: bounded, polling for stability
		stable := 0
		last := ""
		for i := 0; i < 400*settleFactor && stable < 6*settleFactor; i++ {
			time.Sleep(300 * time.Microsecond)
			r.poll()
			cur := r.serveRes + "|" + r.shRes
			for i := range r.conns {
				cur += "|" + r.connStateOf(i)
			}
			cur += fmt.Sprint(r.heldCount())
			if cur == last {
				stable++
			} else {
				stable = 0
				last = cur
			}
		}
	}
	for _, tok := range seq {
		switch tok {
		case 'c':
			mc := newMemConn(fmt.Sprintf("c%d", len(r.conns)))
			mc.closeGate = newGate("conn-close")
			r.conns = append(r.conns, mc)
			before := r.heldCount()
			r.lis.ch <- acceptResult{conn: mc}
			// if the acceptor is waiting in Accept it dequeues the connection at once
			wait(20*time.Millisecond, func() bool { return r.heldCount() > before })
		case 'r':
			r.lis.mu.Lock()
			var g *gate
			if r.nReleased < len(r.lis.held) {
				g = r.lis.held[r.nReleased]
				r.nReleased++
			}
			r.lis.mu.Unlock()
			if g != nil {
				g.release()
			}
		case '0', '1':
			i := int(tok - '0')
			if i < len(r.conns) {
				r.conns[i].peerClose()
			}
		case 'q', 'w':
			i := map[rune]int{'q': 0, 'w': 1}[tok]
			if i < len(r.conns) {
				greq := kmip.Request{Header: kmip.RequestHeader{Version: kmip.ProtocolVersion{Major: 1, Minor: 4}, BatchCount: 1},
					BatchItems: []kmip.RequestBatchItem{{Operation: kmip.OPERATION_GET, RequestPayload: kmip.GetRequest{UniqueIdentifier: fmt.Sprint(i)}}}}
				_, gb := implEncode(&greq)
				r.conns[i].peerSend(gb)
				if !r.hgate[i].waitArrived(2 * time.Second) {
					problems = append(problems, fmt.Sprintf("the request sent on running session %d never reached its operation handler", i))
				}
			}
		case 'h', 'j':
			i := map[rune]int{'h': 0, 'j': 1}[tok]
			if i < len(r.conns) {
				r.hgate[i].release()
				c := r.conns[i]
				if !c.waitUntil(2*time.Second, func() bool { return len(splitMessages(c.out)) >= 1 || c.localClosed || c.closing }) || len(splitMessages(c.out)) < 1 {
					problems = append(problems, fmt.Sprintf("the request in flight on session %d was aborted: its handler returned but no response reached the peer", i))
				}
			}
		case 'a', 'b':
			i := int(tok - 'a')
			if i < len(r.conns) {
				r.conns[i].closeGate.release()
			}
		case 'V':
			startServe()
		case 'S':
			r.shStarted = true
			go func() { r.shDone <- r.srv.Shutdown(r.ctx) }()
			if serving {
				r.lis.closeGate.waitArrived(2 * time.Second)
			} else {
				r.lis.closeGate.release() // Serve has not stored the listener: Shutdown has nothing to close
			}
		case 'k':
			r.lis.closeGate.release()
		case 'x':
			r.cancel()
		}
		settle()
		// the property itself, observed on the implementation at every point of the schedule:
		if r.shRes == "nil" {
			for i, c := range r.conns {
				if connState(c) == "running" {
					problems = append(problems, fmt.Sprintf("Shutdown returned nil while session %d is running (or a session was started after it returned)", i))
				}
				if i < 2 && gateState(r.hgate[i]) == "inflight" {
					problems = append(problems, fmt.Sprintf("Shutdown returned nil while the operation handler of session %d is still running", i))
				}
			}
		}
	}
	r.poll()
	var cs []string
	for i := range r.conns {
		cs = append(cs, r.connStateOf(i))
	}
	sh := r.shRes
	if sh == "" {
		if r.shStarted {
			sh = "pending"
		} else {
			sh = "notcalled"
		}
	}
	sv := r.serveRes
	if sv == "" {
		sv = "running"
	}
	obs = fmt.Sprintf("sh=%s serve=%s conns=%s", sh, sv, strings.Join(cs, ","))
	// clean up: let everything finish
	r.lis.closeGate.release()
	r.lis.mu.Lock()
	for _, g := range r.lis.held {
		g.release()
	}
	r.lis.mu.Unlock()
	r.hgate[0].release()
	r.hgate[1].release()
	for _, c := range r.conns {
		c.peerClose()
		c.closeGate.release()
	}
	r.cancel()
	if !serving {
		r.serveRes = "notstarted"
	}
	if !r.shStarted {
		ctx, cancel := contextWithTimeout(time.Second)
		r.srv.Shutdown(ctx)
		cancel()
	} else if r.shRes == "" {
		select {
		case <-r.shDone:
		case <-time.After(2 * time.Second):
			problems = append(problems, "Shutdown never returned although the context ended")
		}
	}
	if r.serveRes == "" {
		select {
		case <-r.served:
		case <-time.After(2 * time.Second):
			problems = append(problems, "Serve did not return after Shutdown")
		}
	}
	return obs, problems
}

// wellFormed token sequences: r needs a dequeued connection that was not yet released, a session can
// only end once running, S once, k after S, no connect once the listener is being closed
func genShutdownSeqs(maxLen int) []string {
	var out []string
	type state struct {
		conns, dequeued, released int
		running                   [2]bool
		ended                     [2]bool
		closed                    [2]bool
		asked, inflight           [2]bool
		sh, k, x                  bool
		notServing                bool // Serve has not been called yet (schedules with V)
		shBeforeServe             bool // Shutdown ran before Serve stored its listener: the listener is still open
		acceptorBusy              bool // holds a connection at the gate
		serveReturned             bool
	}
	var rec func(prefix string, s state)
	rec = func(prefix string, s state) {
		if prefix != "" {
			out = append(out, prefix)
		}
		if len(prefix) >= maxLen {
			return
		}
		if s.notServing {
			// before Serve: Shutdown (which completes at once), the context, and the start of Serve
			if !s.sh {
				n := s
				n.sh, n.k, n.shBeforeServe = true, true, true
				rec(prefix+"S", n)
			}
			if !s.x {
				n := s
				n.x = true
				rec(prefix+"x", n)
			}
			n := s
			n.notServing = false
			if n.shBeforeServe {
				n.serveReturned = true // Serve finds Shutdown signalled: closes the listener, returns nil
			}
			rec(prefix+"V", n)
			return
		}
		if s.conns < 2 && !s.sh {
			n := s
			n.conns++
			if !n.acceptorBusy && !n.serveReturned {
				n.dequeued++
				n.acceptorBusy = true
			}
			rec(prefix+"c", n)
		}
		if s.acceptorBusy {
			n := s
			n.acceptorBusy = false
			i := n.released
			n.released++
			if n.sh {
				n.serveReturned = true
			} else if i < 2 {
				n.running[i] = true
				if n.dequeued < n.conns {
					n.dequeued++
					n.acceptorBusy = true
				}
			}
			rec(prefix+"r", n)
		}
		for i := 0; i < 2; i++ {
			if s.running[i] && !s.ended[i] && !s.inflight[i] {
				n := s
				n.ended[i] = true
				rec(prefix+string(rune('0'+i)), n)
			}
			if s.running[i] && !s.ended[i] && !s.asked[i] {
				n := s
				n.asked[i], n.inflight[i] = true, true
				rec(prefix+string("qw"[i]), n)
			}
			if s.inflight[i] {
				n := s
				n.inflight[i] = false
				rec(prefix+string("hj"[i]), n)
			}
			if s.ended[i] && !s.closed[i] {
				n := s
				n.closed[i] = true
				rec(prefix+string(rune('a'+i)), n)
			}
		}
		if !s.sh {
			n := s
			n.sh = true
			rec(prefix+"S", n)
		}
		if s.sh && !s.k {
			n := s
			n.k = true
			rec(prefix+"k", n)
		}
		if !s.x {
			n := s
			n.x = true
			rec(prefix+"x", n)
		}
	}
	rec("", state{})
	rec("", state{notServing: true})
	return out
}

func suiteShutdown(args []string) {
	fs := flag.NewFlagSet("shutdown", flag.ExitOnError)
	seed := fs.Int64("seed", 1, "")
	maxLen := fs.Int("len", 5, "")
	dir := fs.String("dir", "work/shutdown", "")
	only := fs.String("only", "", "comma separated schedules to run (confirmation pass)")
	slow := fs.Int("slow", 1, "settle factor")
	fs.Parse(args)
	settleFactor = *slow
	cw := newCaseWriter(*dir)
	rep := &Report{Suite: "shutdown", Seed: *seed, Distribution: map[string]int{}}
	rep.Rule = "every well-formed schedule over {c connect, r release accepted connection, 0/1 peer of a session goes away, a/b the session's conn.Close is let through, q/w a request arrives on a session and its handler blocks, h/j that handler is released, S Shutdown up to the listener close, k let the close through, x context ends} up to the length bound, 1-2 connections; all distinct; non-trivial = contains S and at least one connection"
	seqs := genShutdownSeqs(*maxLen)
	if *only != "" {
		seqs = strings.Split(*only, ",")
	}
	type res struct {
		obs      string
		problems []string
	}
	results := make([]res, len(seqs))
	var wg sync.WaitGroup
	par := 12
	if *slow > 1 {
		par = 2
	}
	sem := make(chan struct{}, par)
	for i, sq := range seqs {
		wg.Add(1)
		sem <- struct{}{}
		go func(i int, sq string) {
			defer wg.Done()
			defer func() { <-sem }()
			o, p := runShutdownSeq(sq)
			results[i] = res{o, p}
		}(i, sq)
	}
	wg.Wait()
	for i, sq := range seqs {
		cw.add("shutdown", "shutdown "+sq, results[i].obs)
		rep.Distribution[fmt.Sprintf("len=%d", len(sq))]++
		if strings.Contains(sq, "S") && strings.Contains(sq, "c") {
			rep.Nontrivial++
		}
		for _, p := range results[i].problems {
			if len(rep.Violations) < 20 {
				rep.Violations = append(rep.Violations, map[string]interface{}{"kind": "shutdown", "schedule": sq, "what": p, "observed": results[i].obs})
			}
		}
		if len(rep.Samples) < 3 && len(sq) >= 4 && strings.Contains(sq, "S") {
			rep.Samples = append(rep.Samples, map[string]interface{}{"schedule": sq, "observed": results[i].obs})
		}
	}
	if *only == "" {
		shFailedHandshake(rep)
	}
	cw.close()
	rep.Evaluations = cw.n + rep.Distribution["failed-handshake"]
	rep.emit()
}

// closeRecListener records Close on the connections it hands out (below the TLS layer)
type closeRecListener struct {
	net.Listener
	mu    sync.Mutex
	conns []*closeRecConn
}
type closeRecConn struct {
	net.Conn
	closed int32
}

func (c *closeRecConn) Close() error {
	atomic.StoreInt32(&c.closed, 1)
	return c.Conn.Close()
}
func (l *closeRecListener) Accept() (net.Conn, error) {
	c, err := l.Listener.Accept()
	if err != nil {
		return nil, err
	}
	rc := &closeRecConn{Conn: c}
	l.mu.Lock()
	l.conns = append(l.conns, rc)
	l.mu.Unlock()
	return rc, nil
}

// shFailedHandshake: sessions whose TLS handshake FAILS are started sessions too: when Shutdown returns nil their
// connections have been closed - although the peers (a plain-text client, a client without certificate, a peer that
// sends nothing until the handshake deadline) keep their ends open
func shFailedHandshake(rep *Report) {
	p := getPKI()
	for _, kind := range []string{"plaintext-peer", "no-client-certificate", "silent-peer"} {
		scfg := &tls.Config{Certificates: []tls.Certificate{p.server["valid"]}, ClientCAs: p.pool}
		kmip.DefaultServerTLSConfig(scfg)
		srv := &kmip.Server{TLSConfig: scfg, Log: log.New(io.Discard, "", 0), ReadTimeout: 300 * time.Millisecond, WriteTimeout: 300 * time.Millisecond}
		var sessAuth int32
		srv.SessionAuthHandler = func(net.Conn) (interface{}, error) { atomic.AddInt32(&sessAuth, 1); return nil, nil }
		tcp, err := net.Listen("tcp", "127.0.0.1:0")
		if err != nil {
			continue
		}
		crl := &closeRecListener{Listener: tcp}
		served := make(chan error, 1)
		init := make(chan struct{})
		go func() { served <- srv.Serve(tls.NewListener(crl, scfg), init) }()
		<-init
		raw, err := net.DialTimeout("tcp", tcp.Addr().String(), time.Second)
		if err != nil {
			continue
		}
		switch kind {
		case "plaintext-peer":
			raw.Write([]byte("GET / HTTP/1.0\r\n\r\n"))
		case "no-client-certificate":
			tc := tls.Client(raw, &tls.Config{RootCAs: p.pool, ServerName: "localhost"})
			tc.SetDeadline(time.Now().Add(time.Second))
			tc.Handshake()
			tc.Write([]byte{0})
			buf := make([]byte, 1)
			tc.Read(buf)
			tc.SetDeadline(time.Time{})
		}
		// the peer keeps its end open; give the server time to fail the handshake - except for the silent peer, where Shutdown
		// is called while the handshake is still pending (it fails at the read deadline, 300 ms): a session counts from Accept on
		if kind == "silent-peer" {
			time.Sleep(50 * time.Millisecond)
		} else {
			time.Sleep(600 * time.Millisecond)
		}
		ctx, cancel := contextWithTimeout(3 * time.Second)
		err = srv.Shutdown(ctx)
		cancel()
		rep.Distribution["failed-handshake"]++
		crl.mu.Lock()
		var open int
		for _, c := range crl.conns {
			if atomic.LoadInt32(&c.closed) == 0 {
				open++
			}
		}
		n := len(crl.conns)
		crl.mu.Unlock()
		if err == nil && open > 0 {
			rep.Violations = append([]interface{}{map[string]interface{}{"kind": "shutdown", "what": "Shutdown returned nil while the connection of a started session (its TLS handshake had failed) was still open",
				"peer": kind, "accepted_connections": n, "still_open": open}}, rep.Violations...)
		}
		raw.Close()
		select {
		case <-served:
		case <-time.After(2 * time.Second):
		}
		if n := atomic.LoadInt32(&sessAuth); n > 0 {
			rep.Violations = append([]interface{}{map[string]interface{}{"kind": "shutdown", "what": "the session-authentication callback ran for a peer whose TLS handshake never completed (Shutdown came while the handshake was pending or after it had failed)",
				"peer": kind, "calls": n}}, rep.Violations...)
		}
	}
}
