package main

// accept suite (C17): every sequence over {T temporary error, C connection, P permanent error,
// S shutdown} up to a length bound is fed to the real Serve through a fault-injecting listener.
// discover suite (C20): the built-in Discover Versions handler over a small version universe,
// exhaustively up to a size bound, including aliasing of the reply with the configuration.

import (
	"bytes"
	"flag"
	"fmt"
	"io"
	"log"
	"math/rand"
	"net"
	"regexp"
	"strings"
	"sync"
	"time"
	"unsafe"

	kmip "github.com/smira/go-kmip"
)

func init() {
	suites["accept"] = suiteAccept
	suites["discover"] = suiteDiscover
}

type lockedBuffer struct {
	mu sync.Mutex
	b  bytes.Buffer
}

func (l *lockedBuffer) Write(p []byte) (int, error) {
	l.mu.Lock()
	defer l.mu.Unlock()
	return l.b.Write(p)
}
func (l *lockedBuffer) String() string {
	l.mu.Lock()
	defer l.mu.Unlock()
	return l.b.String()
}

var retryRe = regexp.MustCompile(`retrying in ([0-9.]+)(ms|s)`)

func runAcceptSeq(seq string) (obs string, problems []string) {
	var logbuf lockedBuffer
	s := &kmip.Server{Log: log.New(&logbuf, "", 0)}
	// the session id a connection's handler invocations see (the model numbers served connections 1, 2, 3, ...)
	var sidMu sync.Mutex
	sids := map[string]string{}
	s.SessionAuthHandler = func(conn net.Conn) (interface{}, error) { return conn.(*memConn).name, nil }
	s.Handle(kmip.OPERATION_DISCOVER_VERSIONS, func(ctx *kmip.RequestContext, item *kmip.RequestBatchItem) (interface{}, error) {
		sidMu.Lock()
		sids[fmt.Sprint(ctx.SessionAuth)] = ctx.SessionID
		sidMu.Unlock()
		return kmip.DiscoverVersionsResponse{}, nil
	})
	lis := newMemListener()
	served := make(chan error, 1)
	init := make(chan struct{})
	go func() { served <- s.Serve(lis, init) }()
	<-init
	var acts []string
	nconn := 0
	result := ""
	req := dvRequest()
	var conns []*memConn
	expectSleep := int64(0)
	nTemp := 0
	nPerm := len(seq) // (rotation start depends on the sequence, so that every kind occurs at every position over the sweep)
	for _, tok := range seq {
		if result != "" {
			break
		}
		switch tok {
		case 'T':
			// wait until Serve is blocked in Accept, so that the sleep can be timed from the error
			for lis.acceptCount() <= lis.consumed() && result == "" {
				time.Sleep(100 * time.Microsecond)
			}
			before := len(retryRe.FindAllString(logbuf.String(), -1))
			calls := lis.acceptCount()
			t0 := time.Now()
			// kinds of temporary error, in rotation: plain, one that is also a timeout, one wrapped in *net.OpError
			nTemp++
			var terr error = tempError{timeout: nTemp%3 == 1}
			if nTemp%3 == 2 {
				terr = &net.OpError{Op: "accept", Net: "mem", Err: tempError{timeout: true}}
			}
			if nTemp%4 == 3 || nTemp%4 == 0 {
				terr = aggTempError{errs: []error{errPermanent}} // a value of an UNCOMPARABLE type (it has a slice field), twice in a row
			}
			lis.ch <- acceptResult{err: terr}
			lis.noteSent()
			// wait for the retry log line
			deadline := time.Now().Add(3 * time.Second)
			for len(retryRe.FindAllString(logbuf.String(), -1)) == before && time.Now().Before(deadline) {
				select {
				case err := <-served:
					result = resultName(err)
					served <- err
				default:
				}
				if result != "" {
					break
				}
				time.Sleep(200 * time.Microsecond)
			}
			if result != "" {
				break
			}
			all := retryRe.FindAllStringSubmatch(logbuf.String(), -1)
			if len(all) == before {
				problems = append(problems, "no retry logged after a temporary error")
				break
			}
			m := all[len(all)-1]
			var ms float64
			fmt.Sscan(m[1], &ms)
			if m[2] == "s" {
				ms *= 1000
			}
			acts = append(acts, fmt.Sprintf("sleep:%d", int64(ms)))
			expectSleep = int64(ms)
			// the loop must be back in Accept only after about that long
			for lis.acceptCount() <= calls && time.Since(t0) < 5*time.Second {
				time.Sleep(200 * time.Microsecond)
			}
			el := time.Since(t0).Milliseconds()
			if el+2 < expectSleep || el > expectSleep+2500 { // (upper bracket generous: a loaded machine oversleeps)
				problems = append(problems, fmt.Sprintf("slept %dms where %dms was announced", el, expectSleep))
			}
		case 'C':
			mc := newMemConn(fmt.Sprintf("c%d", nconn))
			conns = append(conns, mc)
			lis.ch <- acceptResult{conn: mc}
			lis.noteSent()
			mc.peerSend(req)
			if mc.waitUntil(3*time.Second, func() bool { return len(splitMessages(mc.out)) >= 1 || mc.localClosed }) && !mc.localClosed {
				sidMu.Lock()
				acts = append(acts, "serve:"+sids[mc.name])
				sidMu.Unlock()
			} else {
				problems = append(problems, fmt.Sprintf("connection %d was not served", nconn))
			}
			nconn++
		case 'P':
			// kinds of permanent error, in rotation: plain, the closed-listener error (the owner closed it - NOT Shutdown), the same
			// wrapped in *net.OpError, io.EOF: each is returned by Serve as it is
			nPerm++
			var perr error = errPermanent
			switch nPerm % 4 {
			case 1:
				perr = net.ErrClosed
			case 2:
				perr = &net.OpError{Op: "accept", Net: "mem", Err: net.ErrClosed}
			case 3:
				perr = io.EOF
			}
			lis.ch <- acceptResult{err: perr}
			lis.noteSent()
			select {
			case err := <-served:
				result = resultName(err)
			case <-time.After(3 * time.Second):
				problems = append(problems, "Serve did not return after a permanent error")
			}
		case 'S', 'Z', 'W':
			if tok == 'W' {
				// a listener whose Close is slow (it joins its accept machinery): Accept fails at once, Close returns
				// only when Serve has returned (or after 300 ms) - Serve must still see that Shutdown caused the failure
				sc := make(chan struct{})
				lis.mu.Lock()
				lis.slowClose = sc
				lis.mu.Unlock()
				go func() {
					err := <-served
					served <- err
					close(sc)
				}()
			}
			if tok == 'Z' {
				lis.mu.Lock()
				lis.tempAfterClose = true // a "stoppable listener": Close makes Accept fail with a temporary (timeout) error
				lis.mu.Unlock()
			}
			for _, c := range conns {
				c.peerClose()
			}
			ctx, cancel := contextWithTimeout(3 * time.Second)
			if err := s.Shutdown(ctx); err != nil {
				problems = append(problems, "Shutdown: "+err.Error())
			}
			cancel()
			select {
			case err := <-served:
				result = resultName(err)
			case <-time.After(3 * time.Second):
				problems = append(problems, "Serve did not return after Shutdown")
				result = "stuck"
				// let it go: the listener's error becomes permanent
				lis.mu.Lock()
				lis.tempAfterClose = false
				lis.mu.Unlock()
				select {
				case <-served:
				case <-time.After(3 * time.Second):
				}
			}
		}
	}
	if result == "" {
		select {
		case err := <-served:
			result = resultName(err)
		case <-time.After(20 * time.Millisecond):
			result = "running"
			for _, c := range conns {
				c.peerClose()
			}
			ctx, cancel := contextWithTimeout(3 * time.Second)
			s.Shutdown(ctx)
			cancel()
			<-served
		}
	}
	for _, c := range conns {
		c.peerClose()
	}
	return strings.Join(acts, ",") + "|" + result, problems
}

// aggTempError: a temporary error whose dynamic type is not comparable (== on two of them panics)
type aggTempError struct{ errs []error }

func (aggTempError) Error() string   { return "several temporary accept errors" }
func (aggTempError) Timeout() bool   { return false }
func (aggTempError) Temporary() bool { return true }

func resultName(err error) string {
	if err == nil {
		return "nil"
	}
	return "err"
}

func (l *memListener) acceptCount() int {
	l.mu.Lock()
	defer l.mu.Unlock()
	return l.accepts
}

// results handed to the listener so far (each is consumed by exactly one Accept call)
func (l *memListener) consumed() int {
	l.mu.Lock()
	defer l.mu.Unlock()
	return l.lastSeenAccepts
}

func (l *memListener) noteSent() {
	l.mu.Lock()
	l.lastSeenAccepts++
	l.mu.Unlock()
}

func suiteAccept(args []string) {
	fs := flag.NewFlagSet("accept", flag.ExitOnError)
	seed := fs.Int64("seed", 1, "")
	maxLen := fs.Int("len", 4, "")
	dir := fs.String("dir", "work/accept", "")
	long := fs.Bool("cap", true, "include the sequence that reaches the 1 s cap")
	fs.Parse(args)
	cw := newCaseWriter(*dir)
	rep := &Report{Suite: "accept", Seed: *seed, Distribution: map[string]int{}}
	rep.Rule = "every sequence over {T temporary error, C connection, P permanent error, S Shutdown, Z Shutdown on a listener whose Accept then fails with a TEMPORARY error, W Shutdown on a listener whose Close releases Accept at once and returns late} up to the length bound (nothing follows P, S or Z), each run against the real Serve; all distinct; non-trivial = contains at least one T or C"
	var seqs []string
	var gen func(prefix string)
	gen = func(prefix string) {
		if prefix != "" {
			seqs = append(seqs, prefix)
		}
		if len(prefix) == *maxLen || strings.HasSuffix(prefix, "P") || strings.HasSuffix(prefix, "S") || strings.HasSuffix(prefix, "Z") || strings.HasSuffix(prefix, "W") {
			return
		}
		for _, t := range "TCPSZW" {
			gen(prefix + string(t))
		}
	}
	gen("")
	if *long {
		seqs = append(seqs, "TTTTTTTTTTC") // 5,10,...,640,1000,1000 then a connection
	}
	type res struct {
		obs      string
		problems []string
	}
	results := make([]res, len(seqs))
	var wg sync.WaitGroup
	sem := make(chan struct{}, 12)
	for i, sq := range seqs {
		wg.Add(1)
		sem <- struct{}{}
		go func(i int, sq string) {
			defer wg.Done()
			defer func() { <-sem }()
			o, p := runAcceptSeq(sq)
			results[i] = res{o, p}
		}(i, sq)
	}
	wg.Wait()
	for i, sq := range seqs {
		cw.add("accept", "accept "+sq, results[i].obs)
		rep.Distribution[fmt.Sprintf("len=%d", len(sq))]++
		if strings.ContainsAny(sq, "TC") {
			rep.Nontrivial++
		}
		for _, p := range results[i].problems {
			rep.Violations = append(rep.Violations, map[string]interface{}{"kind": "accept", "sequence": sq, "what": p, "observed": results[i].obs})
		}
		if len(rep.Samples) < 3 && len(sq) >= 3 {
			rep.Samples = append(rep.Samples, map[string]interface{}{"sequence": sq, "observed": results[i].obs})
		}
	}
	cw.close()
	rep.Evaluations = cw.n
	rep.emit()
}

// ---------------- discover ----------------

func pvText(vs []kmip.ProtocolVersion) string {
	var p []string
	for _, v := range vs {
		p = append(p, fmt.Sprintf("%d.%d", v.Major, v.Minor))
	}
	return strings.Join(p, ",")
}

func suiteDiscover(args []string) {
	fs := flag.NewFlagSet("discover", flag.ExitOnError)
	seed := fs.Int64("seed", 1, "")
	maxSup := fs.Int("sup", 2, "")
	maxOffer := fs.Int("offer", 3, "")
	dir := fs.String("dir", "work/discover", "")
	fs.Parse(args)
	cw := newCaseWriter(*dir)
	rep := &Report{Suite: "discover", Seed: *seed, Distribution: map[string]int{}}
	rep.Rule = "every (supported list, offer) over a 4-version universe up to the length bounds (duplicates and unknown versions included), plus every pair of lists of length <= 2 (one side <= 1 in quick) over a 17-version WIDE universe (the zero version 0.0, int32 extremes and numbers that collide under common packings/keys; all distinct; non-trivial = offer and supported list both non-empty"
	universe := []kmip.ProtocolVersion{{Major: 1, Minor: 0}, {Major: 1, Minor: 2}, {Major: 1, Minor: 4}, {Major: 2, Minor: 0}}
	var lists func(n int) [][]kmip.ProtocolVersion
	lists = func(n int) [][]kmip.ProtocolVersion {
		out := [][]kmip.ProtocolVersion{nil}
		if n == 0 {
			return out
		}
		for _, l := range lists(n - 1) {
			if len(l) == n-1 {
				for _, u := range universe {
					out = append(out, append(append([]kmip.ProtocolVersion(nil), l...), u))
				}
			}
		}
		// plus all shorter ones
		seen := map[string]bool{}
		var all [][]kmip.ProtocolVersion
		for _, l := range append(lists(n-1), out...) {
			k := pvText(l)
			if !seen[k] {
				seen[k] = true
				all = append(all, l)
			}
		}
		return all
	}
	sups := lists(*maxSup)
	offers := lists(*maxOffer)
	// ONE Server value for the whole sweep, re-configured between calls (sequentially; nothing is serving): the answer
	// depends on the configuration at the time of the call, not on one seen earlier
	s := &kmip.Server{}
	for _, sup := range sups {
		for _, offer := range offers {
			cfgCopy := append([]kmip.ProtocolVersion(nil), sup...)
			if len(offer)%2 == 0 || len(s.SupportedVersions) != len(sup) {
				s.SupportedVersions = cfgCopy // replaced
			} else {
				copy(s.SupportedVersions, sup) // edited in place (same length)
				cfgCopy = s.SupportedVersions
			}
			item := &kmip.RequestBatchItem{Operation: kmip.OPERATION_DISCOVER_VERSIONS, RequestPayload: kmip.DiscoverVersionsRequest{ProtocolVersions: append([]kmip.ProtocolVersion(nil), offer...)}}
			resp, err := s.VerifDiscoverVersions(&kmip.RequestContext{}, item)
			obs := "error"
			if err == nil {
				r, ok := resp.(kmip.DiscoverVersionsResponse)
				if ok {
					alias := "fresh"
					// the reply must not share memory with the configuration: compare element addresses over the whole capacity
					full := r.ProtocolVersions[:cap(r.ProtocolVersions)]
					cfgFull := cfgCopy[:cap(cfgCopy)]
					for i := range full {
						for j := range cfgFull {
							if unsafe.Pointer(&full[i]) == unsafe.Pointer(&cfgFull[j]) {
								alias = "aliased"
							}
						}
					}
					res := pvText(r.ProtocolVersions)
					// mutate the reply; the configuration must stay what it was
					for i := range r.ProtocolVersions {
						r.ProtocolVersions[i] = kmip.ProtocolVersion{Major: 9, Minor: 9}
					}
					if pvText(s.SupportedVersions) != pvText(sup) {
						alias = "aliased"
					}
					obs = res + "|" + alias
				}
			}
			cw.add("discover", "discover "+pvText(sup)+" | "+pvText(offer), obs)
			if len(sup) > 0 && len(offer) > 0 {
				rep.Nontrivial++
			}
			rep.Distribution[fmt.Sprintf("sup=%d,offer=%d", len(sup), len(offer))]++
		}
	}
	// the same over a WIDE universe: versions are two int32s, and any packing, hashing or textual
	// key that identifies two distinct versions shows here (x<<16|y, x<<8|y, 10x+y, "xy", abs, int16 ...)
	wide := []kmip.ProtocolVersion{{Major: 0, Minor: 0}, {Major: 1, Minor: 4}, {Major: 1, Minor: 65540}, {Major: 65537, Minor: 4}, {Major: 0, Minor: 65540},
		{Major: -65535, Minor: 4}, {Major: 1, Minor: 14}, {Major: 11, Minor: 4}, {Major: 2, Minor: 4}, {Major: 1, Minor: 260},
		{Major: 0, Minor: 14}, {Major: 1, Minor: -4}, {Major: -1, Minor: 4}, {Major: 2147483647, Minor: 0}, {Major: -2147483648, Minor: 0},
		{Major: 4, Minor: 1}, {Major: 257, Minor: 4}}
	var wl1, wl2 [][]kmip.ProtocolVersion
	for _, a := range wide {
		wl1 = append(wl1, []kmip.ProtocolVersion{a})
		for _, b := range wide {
			wl2 = append(wl2, []kmip.ProtocolVersion{a, b})
		}
	}
	type pair struct{ sup, offer []kmip.ProtocolVersion }
	var widePairs []pair
	for _, sup := range wl1 {
		for _, offer := range append(append([][]kmip.ProtocolVersion{nil}, wl1...), wl2...) {
			widePairs = append(widePairs, pair{sup, offer})
		}
	}
	for _, sup := range wl2 {
		for _, offer := range wl1 {
			widePairs = append(widePairs, pair{sup, offer})
		}
	}
	if *maxSup >= 3 { // thorough: two supported x two offered
		for _, sup := range wl2 {
			for _, offer := range wl2 {
				widePairs = append(widePairs, pair{sup, offer})
			}
		}
	}
	for _, pr := range widePairs {
		cfgCopy := append([]kmip.ProtocolVersion(nil), pr.sup...)
		s := &kmip.Server{SupportedVersions: cfgCopy}
		item := &kmip.RequestBatchItem{Operation: kmip.OPERATION_DISCOVER_VERSIONS, RequestPayload: kmip.DiscoverVersionsRequest{ProtocolVersions: append([]kmip.ProtocolVersion(nil), pr.offer...)}}
		resp, err := s.VerifDiscoverVersions(&kmip.RequestContext{}, item)
		obs := "error"
		if err == nil {
			if r, ok := resp.(kmip.DiscoverVersionsResponse); ok {
				alias := "fresh"
				if pvText(s.SupportedVersions) != pvText(pr.sup) {
					alias = "aliased"
				}
				obs = pvText(r.ProtocolVersions) + "|" + alias
			}
		}
		cw.add("discover", "discover "+pvText(pr.sup)+" | "+pvText(pr.offer), obs)
		rep.Nontrivial++
		rep.Distribution[fmt.Sprintf("wide:sup=%d,offer=%d", len(pr.sup), len(pr.offer))]++
	}
	// several Discover Versions items of ONE request (same Server, same RequestContext, replies all kept
	// alive until the batch is encoded): every reply, read after the last call, is still the answer to
	// its own offer, and no reply shares memory with another reply or with the configuration
	func() {
		rng := rand.New(rand.NewSource(*seed + 77))
		nb := 400
		if *maxSup >= 3 {
			nb = 3000
		}
		for b := 0; b < nb; b++ {
			sup := sups[rng.Intn(len(sups))]
			if len(sup) == 0 && rng.Intn(4) != 0 {
				sup = universe[:1+rng.Intn(len(universe))]
			}
			k := 2 + rng.Intn(3)
			cfgCopy := append([]kmip.ProtocolVersion(nil), sup...)
			s := &kmip.Server{SupportedVersions: cfgCopy}
			ctx := &kmip.RequestContext{}
			var batchOffers [][]kmip.ProtocolVersion
			var replies []*kmip.DiscoverVersionsResponse
			for i := 0; i < k; i++ {
				offer := offers[rng.Intn(len(offers))]
				batchOffers = append(batchOffers, offer)
				item := &kmip.RequestBatchItem{Operation: kmip.OPERATION_DISCOVER_VERSIONS, RequestPayload: kmip.DiscoverVersionsRequest{ProtocolVersions: append([]kmip.ProtocolVersion(nil), offer...)}}
				resp, err := s.VerifDiscoverVersions(ctx, item)
				if r, ok := resp.(kmip.DiscoverVersionsResponse); ok && err == nil {
					replies = append(replies, &r)
				} else {
					replies = append(replies, nil)
				}
			}
			texts := make([]string, k)
			for i, r := range replies {
				if r != nil {
					texts[i] = pvText(r.ProtocolVersions)
				}
			}
			alias := make([]string, k)
			for i := range alias {
				alias[i] = "fresh"
			}
			for i, r := range replies {
				if r == nil {
					continue
				}
				for x := range r.ProtocolVersions {
					r.ProtocolVersions[x] = kmip.ProtocolVersion{Major: 9, Minor: 9}
				}
				for j, q := range replies {
					if j > i && q != nil && pvText(q.ProtocolVersions) != texts[j] {
						alias[i], alias[j] = "aliased", "aliased"
					}
				}
				if pvText(s.SupportedVersions) != pvText(sup) {
					alias[i] = "aliased"
				}
			}
			for i := range replies {
				obs := "error"
				if replies[i] != nil {
					obs = texts[i] + "|" + alias[i]
				}
				cw.add("discover", "discover "+pvText(sup)+" | "+pvText(batchOffers[i]), obs)
				rep.Nontrivial++
			}
			rep.Distribution[fmt.Sprintf("batch:items=%d", k)]++
		}
	}()
	// defaulting: an empty configuration becomes a fresh copy of 1.4, 1.3, 1.2, 1.1
	for variant := 0; variant < 2; variant++ {
		func() {
			before := pvText(kmip.DefaultSupportedVersions)
			s := &kmip.Server{Log: log.New(&lockedBuffer{}, "", 0)}
			if variant == 1 {
				// the fields of a Server may be filled in in any order before Serve: a handler registered first, versions left unset
				s.Handle(kmip.OPERATION_GET, func(*kmip.RequestContext, *kmip.RequestBatchItem) (interface{}, error) { return nil, nil })
				s.SupportedVersions = nil
			}
			lis := newMemListener()
			init := make(chan struct{})
			served := make(chan error, 1)
			go func() { served <- s.Serve(lis, init) }()
			<-init
			ctx, cancel := contextWithTimeout(2 * time.Second)
			defer cancel()
			s.Shutdown(ctx)
			<-served
			got := pvText(s.SupportedVersions)
			if got != "1.4,1.3,1.2,1.1" {
				rep.Violations = append(rep.Violations, map[string]interface{}{"kind": "default", "what": "empty SupportedVersions does not default to 1.4, 1.3, 1.2, 1.1", "got": got})
			}
			if len(s.SupportedVersions) > 0 && len(kmip.DefaultSupportedVersions) > 0 && &s.SupportedVersions[0] == &kmip.DefaultSupportedVersions[0] {
				rep.Violations = append(rep.Violations, map[string]interface{}{"kind": "default", "what": "the defaulted configuration aliases DefaultSupportedVersions"})
			}
			for i := range s.SupportedVersions {
				s.SupportedVersions[i] = kmip.ProtocolVersion{Major: 9, Minor: 9}
			}
			if pvText(kmip.DefaultSupportedVersions) != before {
				rep.Violations = append(rep.Violations, map[string]interface{}{"kind": "default", "what": "writing to the server's list changed DefaultSupportedVersions"})
				copy(kmip.DefaultSupportedVersions, []kmip.ProtocolVersion{{Major: 1, Minor: 4}, {Major: 1, Minor: 3}, {Major: 1, Minor: 2}, {Major: 1, Minor: 1}})
			}
			rep.Distribution["defaulting"]++
		}()
	}
	cw.close()
	rep.Evaluations = cw.n
	rep.Samples = append(rep.Samples, map[string]interface{}{"supported": "1.4,1.2", "offer": "1.2,2.0,1.4"})
	rep.emit()
}
