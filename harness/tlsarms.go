package main

// tlsarms suite (C15 on TLS connections): the deadlines the server sets on the connection UNDER the
// TLS layer (SetDeadline counts as both) for a scripted sequential session, for every timeout
// configuration, with a successful and a failing handshake; compared with the session model's arms.

import (
	"crypto/tls"
	"flag"
	"fmt"
	"io"
	"log"
	"net"
	"strings"
	"sync"
	"time"

	kmip "github.com/smira/go-kmip"
)

func init() { suites["tlsarms"] = suiteTLSArms }

type dlLogConn struct {
	net.Conn
	mu  *sync.Mutex
	log *[]string
}

func (c *dlLogConn) add(e ...string) {
	c.mu.Lock()
	*c.log = append(*c.log, e...)
	c.mu.Unlock()
}
func (c *dlLogConn) SetDeadline(t time.Time) error {
	if !t.IsZero() {
		c.add("armr", "armw")
	}
	return c.Conn.SetDeadline(t)
}
func (c *dlLogConn) SetReadDeadline(t time.Time) error {
	if !t.IsZero() {
		c.add("armr")
	}
	return c.Conn.SetReadDeadline(t)
}
func (c *dlLogConn) SetWriteDeadline(t time.Time) error {
	if !t.IsZero() {
		c.add("armw")
	}
	return c.Conn.SetWriteDeadline(t)
}

type dlLogListener struct {
	net.Listener
	mu  sync.Mutex
	log []string
}

func (l *dlLogListener) Accept() (net.Conn, error) {
	c, err := l.Listener.Accept()
	if err != nil {
		return nil, err
	}
	return &dlLogConn{Conn: c, mu: &l.mu, log: &l.log}, nil
}

func suiteTLSArms(args []string) {
	fs := flag.NewFlagSet("tlsarms", flag.ExitOnError)
	seed := fs.Int64("seed", 1, "")
	dir := fs.String("dir", "work/tlsarms", "")
	fs.Parse(args)
	cw := newCaseWriter(*dir)
	rep := &Report{Suite: "tlsarms", Seed: *seed, Distribution: map[string]int{}}
	rep.Rule = "every timeout configuration {0,T}^2 x handshake {ok, fails} x 0..3 sequential requests over loopback TLS; all distinct; non-trivial = at least one timeout configured"
	p := getPKI()
	req := dvRequest()
	for _, rt := range []bool{false, true} {
		for _, wt := range []bool{false, true} {
			for _, hsOK := range []bool{true, false} {
				for k := 0; k <= 3; k++ {
					if !hsOK && k > 0 {
						continue
					}
					scfg := &tls.Config{Certificates: []tls.Certificate{p.server["valid"]}, ClientCAs: p.pool}
					kmip.DefaultServerTLSConfig(scfg)
					srv := &kmip.Server{TLSConfig: scfg, Log: log.New(io.Discard, "", 0)}
					if rt {
						srv.ReadTimeout = 5 * time.Second
					}
					if wt {
						srv.WriteTimeout = 5 * time.Second
					}
					tcp, err := net.Listen("tcp", "127.0.0.1:0")
					if err != nil {
						panic(err)
					}
					ll := &dlLogListener{Listener: tcp}
					served := make(chan error, 1)
					init := make(chan struct{})
					go func() { served <- srv.Serve(tls.NewListener(ll, scfg), init) }()
					<-init
					responses := 0
					func() {
						ccfg := &tls.Config{RootCAs: p.pool, ServerName: "localhost"}
						if hsOK {
							ccfg.Certificates = []tls.Certificate{p.client["valid"]}
						}
						conn, err := tls.Dial("tcp", tcp.Addr().String(), ccfg)
						if err != nil {
							return
						}
						defer conn.Close()
						conn.SetDeadline(time.Now().Add(3 * time.Second))
						if !hsOK {
							// TLS 1.3: the client learns about the rejected certificate on its first read
							conn.Write(req)
							buf := make([]byte, 8)
							io.ReadFull(conn, buf)
							return
						}
						for i := 0; i < k; i++ {
							if _, err := conn.Write(req); err != nil {
								return
							}
							hdr := make([]byte, 8)
							if _, err := io.ReadFull(conn, hdr); err != nil {
								return
							}
							body := make([]byte, int(hdr[4])<<24|int(hdr[5])<<16|int(hdr[6])<<8|int(hdr[7]))
							if _, err := io.ReadFull(conn, body); err != nil {
								return
							}
							responses++
						}
					}()
					ctx, cancel := contextWithTimeout(3 * time.Second)
					srv.Shutdown(ctx)
					cancel()
					<-served
					ll.mu.Lock()
					arms := strings.Join(ll.log, ",")
					ll.mu.Unlock()
					b2 := func(b bool) string {
						if b {
							return "1"
						}
						return "0"
					}
					hs := "ok"
					if !hsOK {
						hs = "fail"
					}
					var input []byte
					for i := 0; i < k; i++ {
						input = append(input, req...)
					}
					cmd := fmt.Sprintf("session tls=%s rt=%s wt=%s sa=none ra=0 ops= sv=1.4,1.3,1.2,1.1 sid=3031 st=_ now=3e8 |  | %s", hs, b2(rt), b2(wt), hexBytes(input))
					cw.add("tlsarms", cmd, fmt.Sprintf("arms=%s responses=%d", arms, responses))
					if rt || wt {
						rep.Nontrivial++
					}
					rep.Distribution[fmt.Sprintf("rt=%v,wt=%v,hs=%v", rt, wt, hsOK)]++
					if len(rep.Samples) < 2 && rt && k == 2 {
						rep.Samples = append(rep.Samples, map[string]interface{}{"config": fmt.Sprintf("rt=%v wt=%v handshake=%v requests=%d", rt, wt, hsOK, k), "deadline_calls": arms})
					}
				}
			}
		}
	}
	cw.close()
	rep.Evaluations = cw.n
	rep.emit()
}
