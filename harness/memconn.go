package main

// In-memory net.Conn / net.Listener fakes that log what the server does with them.

import (
	"fmt"
	"net"
	"os"
	"sync"
	"time"
)

type connEvent struct {
	kind string // armr armw write close sa ra call read disarm
	data []byte
	text string
	at   time.Time
	dl   time.Time
}

type memConn struct {
	drainPerWrite int // > 0: a Write of more than this many bytes gets this many out, then blocks until the write deadline (slow peer)
	mu   sync.Mutex
	cond *sync.Cond

	in          []byte // bytes the peer sent, not yet read by the server
	peerClosed  bool   // peer half-closed: Read returns EOF once in is empty
	localClosed bool
	readDL      time.Time
	writeDL     time.Time
	readBlocked bool // server is waiting in Read on an empty buffer
	chunk       int  // max bytes per Read (0 = unlimited)
	blockWrites bool // peer does not read: Write blocks until deadline / close
	out         []byte
	log         []connEvent
	reads       int
	name        string
	addrCalls   int   // RemoteAddr calls: serve() logs the peer when it starts
	gate        *gate // optional: first RemoteAddr/Read waits for it (forced schedules, C11)
	gated       bool
	closeGate   *gate // optional: Close waits for it before taking effect
	closing     bool  // Close has been called (possibly still held at the gate)
}

type memAddr string

func (a memAddr) Network() string { return "mem" }
func (a memAddr) String() string  { return string(a) }

func newMemConn(name string) *memConn {
	c := &memConn{name: name}
	c.cond = sync.NewCond(&c.mu)
	return c
}

func (c *memConn) logf(kind string, data []byte, text string) {
	c.log = append(c.log, connEvent{kind: kind, data: append([]byte(nil), data...), text: text, at: time.Now()})
	c.cond.Broadcast()
}

func (c *memConn) event(kind, text string) {
	if c == nil {
		return
	}
	c.mu.Lock()
	c.logf(kind, nil, text)
	c.mu.Unlock()
}

type timeoutError struct{}

func (timeoutError) Error() string   { return "i/o timeout" }
func (timeoutError) Timeout() bool   { return true }
func (timeoutError) Temporary() bool { return true }

func (c *memConn) passGate() {
	c.mu.Lock()
	g := c.gate
	done := c.gated
	c.gated = true
	c.mu.Unlock()
	if g != nil && !done {
		g.arrive()
	}
}

func (c *memConn) Read(b []byte) (int, error) {
	c.passGate()
	c.mu.Lock()
	defer c.mu.Unlock()
	c.reads++
	for {
		if c.localClosed {
			return 0, net.ErrClosed
		}
		if !c.readDL.IsZero() && !time.Now().Before(c.readDL) {
			// as a real net.Conn: an expired deadline fails the call even if data is waiting
			c.logf("read-timeout", nil, "")
			return 0, timeoutError{}
		}
		if len(c.in) > 0 {
			n := len(b)
			if c.chunk > 0 && n > c.chunk {
				n = c.chunk
			}
			if n > len(c.in) {
				n = len(c.in)
			}
			copy(b, c.in[:n])
			c.in = c.in[n:]
			c.logf("read", nil, "")
			return n, nil
		}
		if c.peerClosed {
			return 0, errEOF
		}
		if !c.readDL.IsZero() {
			d := time.Until(c.readDL)
			if d <= 0 {
				c.logf("read-timeout", nil, "")
				return 0, timeoutError{}
			}
			c.readBlocked = true
			c.cond.Broadcast()
			t := time.AfterFunc(d, func() { c.mu.Lock(); c.cond.Broadcast(); c.mu.Unlock() })
			c.cond.Wait()
			t.Stop()
			c.readBlocked = false
			continue
		}
		c.readBlocked = true
		c.cond.Broadcast()
		c.cond.Wait()
		c.readBlocked = false
	}
}

func (c *memConn) Write(b []byte) (int, error) {
	c.mu.Lock()
	defer c.mu.Unlock()
	for c.blockWrites {
		if c.localClosed {
			return 0, net.ErrClosed
		}
		if !c.writeDL.IsZero() {
			d := time.Until(c.writeDL)
			if d <= 0 {
				c.logf("write-timeout", nil, "")
				return 0, timeoutError{}
			}
			t := time.AfterFunc(d, func() { c.mu.Lock(); c.cond.Broadcast(); c.mu.Unlock() })
			c.cond.Wait()
			t.Stop()
			continue
		}
		c.cond.Wait()
	}
	if c.localClosed {
		return 0, net.ErrClosed
	}
	if !c.writeDL.IsZero() && !time.Now().Before(c.writeDL) {
		// as a real net.Conn: an expired write deadline fails the call at once
		c.logf("write-timeout", nil, "")
		return 0, timeoutError{}
	}
	if c.drainPerWrite > 0 && len(b) > c.drainPerWrite && !c.writeDL.IsZero() {
		// a slowly draining peer: this call gets rid of drainPerWrite bytes, then the send buffer is full until the write
		// deadline passes - a real net.Conn returns the bytes written so far together with the timeout
		n := c.drainPerWrite
		c.out = append(c.out, b[:n]...)
		c.logf("write", b[:n], "")
		for !c.localClosed && time.Now().Before(c.writeDL) {
			d := time.Until(c.writeDL)
			t := time.AfterFunc(d, func() { c.mu.Lock(); c.cond.Broadcast(); c.mu.Unlock() })
			c.cond.Wait()
			t.Stop()
		}
		c.logf("write-timeout", nil, "")
		return n, timeoutError{}
	}
	c.out = append(c.out, b...)
	c.logf("write", b, "")
	return len(b), nil
}

func (c *memConn) Close() error {
	c.mu.Lock()
	g := c.closeGate
	if c.addrCalls == 0 {
		g = nil // closed by Serve without ever being served: nothing to hold
	}
	first := !c.closing
	c.closing = true
	c.cond.Broadcast()
	c.mu.Unlock()
	if g != nil && first {
		g.arrive()
	}
	c.mu.Lock()
	defer c.mu.Unlock()
	if !c.localClosed {
		c.localClosed = true
		c.logf("close", nil, "")
	}
	return nil
}

func (c *memConn) LocalAddr() net.Addr { return memAddr("server") }
func (c *memConn) RemoteAddr() net.Addr {
	c.passGate()
	c.mu.Lock()
	c.addrCalls++
	c.cond.Broadcast()
	c.mu.Unlock()
	return memAddr(c.name)
}

func (c *memConn) SetDeadline(t time.Time) error {
	c.SetReadDeadline(t)
	return c.SetWriteDeadline(t)
}

func (c *memConn) SetReadDeadline(t time.Time) error {
	c.mu.Lock()
	defer c.mu.Unlock()
	c.readDL = t
	ev := connEvent{kind: "armr", at: time.Now(), dl: t}
	if t.IsZero() {
		ev.kind = "disarmr"
	}
	c.log = append(c.log, ev)
	c.cond.Broadcast()
	return nil
}

func (c *memConn) SetWriteDeadline(t time.Time) error {
	c.mu.Lock()
	defer c.mu.Unlock()
	c.writeDL = t
	ev := connEvent{kind: "armw", at: time.Now(), dl: t}
	if t.IsZero() {
		ev.kind = "disarmw"
	}
	c.log = append(c.log, ev)
	c.cond.Broadcast()
	return nil
}

// ---- peer side ----

func (c *memConn) peerSend(b []byte) {
	c.mu.Lock()
	c.in = append(c.in, b...)
	c.cond.Broadcast()
	c.mu.Unlock()
}

func (c *memConn) peerClose() {
	c.mu.Lock()
	c.peerClosed = true
	c.cond.Broadcast()
	c.mu.Unlock()
}

// waitUntil blocks until pred (evaluated under the lock) holds or the timeout passes
func (c *memConn) waitUntil(timeout time.Duration, pred func() bool) bool {
	deadline := time.Now().Add(timeout)
	c.mu.Lock()
	defer c.mu.Unlock()
	for !pred() {
		d := time.Until(deadline)
		if d <= 0 {
			return false
		}
		t := time.AfterFunc(d, func() { c.mu.Lock(); c.cond.Broadcast(); c.mu.Unlock() })
		c.cond.Wait()
		t.Stop()
	}
	return true
}

func (c *memConn) snapshot() []connEvent {
	c.mu.Lock()
	defer c.mu.Unlock()
	return append([]connEvent(nil), c.log...)
}

var errEOF = ioEOF

// ---------------- listener ----------------

type acceptResult struct {
	conn net.Conn
	err  error
}

type memListener struct {
	mu              sync.Mutex
	ch              chan acceptResult
	closed          chan struct{}
	once            sync.Once
	accepts         int
	lastSeenAccepts int
	closes          int
	// optional gates for forced schedules
	acceptReturnGate *gate // Accept has dequeued a connection, waits before returning it
	closeGate        *gate // Close waits before taking effect
	slowClose        chan struct{} // if set: Close releases Accept at once but returns only when this is closed (or after 300 ms)
	tempAfterClose   bool  // after Close, Accept fails with a temporary error (an accept deadline in the past) instead of net.ErrClosed
	holdAccepts      bool  // every dequeued connection waits at its own gate (appended to held)
	held             []*gate
	inAccept         int // Accept calls currently blocked in the select
}

func newMemListener() *memListener {
	return &memListener{ch: make(chan acceptResult, 64), closed: make(chan struct{})}
}

// tempError: a temporary Accept error; some temporary errors are timeouts too (an accept deadline), both kinds must be retried
type tempError struct{ timeout bool }

func (tempError) Error() string   { return "temporary accept error" }
func (e tempError) Timeout() bool { return e.timeout }
func (tempError) Temporary() bool { return true }

var errPermanent = fmt.Errorf("permanent accept error")

func (l *memListener) Accept() (net.Conn, error) {
	l.mu.Lock()
	l.accepts++
	l.inAccept++
	l.mu.Unlock()
	select {
	case r := <-l.ch:
		l.mu.Lock()
		l.inAccept--
		var g *gate
		if r.conn != nil && l.holdAccepts {
			g = newGate("accept-return")
			l.held = append(l.held, g)
		}
		l.mu.Unlock()
		if g != nil {
			g.arrive()
		}
		if r.conn != nil && l.acceptReturnGate != nil {
			l.acceptReturnGate.arrive()
		}
		return r.conn, r.err
	case <-l.closed:
		l.mu.Lock()
		l.inAccept--
		temp := l.tempAfterClose
		l.mu.Unlock()
		if temp {
			return nil, tempError{timeout: true}
		}
		return nil, net.ErrClosed
	}
}

func (l *memListener) Close() error {
	if l.closeGate != nil {
		l.closeGate.arrive()
	}
	l.mu.Lock()
	l.closes++
	l.mu.Unlock()
	first := false
	l.once.Do(func() { close(l.closed); first = true })
	l.mu.Lock()
	sc := l.slowClose
	l.mu.Unlock()
	if first && sc != nil {
		select {
		case <-sc:
		case <-time.After(300 * time.Millisecond):
		}
	}
	return nil
}

func (l *memListener) Addr() net.Addr { return memAddr("listener") }

func (l *memListener) isClosed() bool {
	select {
	case <-l.closed:
		return true
	default:
		return false
	}
}

// gate: a schedule point. arrive() announces arrival and blocks until release() is called.
type gate struct {
	name     string
	arrived  chan struct{}
	released chan struct{}
	aonce    sync.Once
	ronce    sync.Once
}

func newGate(name string) *gate {
	return &gate{name: name, arrived: make(chan struct{}), released: make(chan struct{})}
}

func (g *gate) arrive() {
	g.aonce.Do(func() { close(g.arrived) })
	<-g.released
}

func (g *gate) release() { g.ronce.Do(func() { close(g.released) }) }

func (g *gate) waitArrived(d time.Duration) bool {
	select {
	case <-g.arrived:
		return true
	case <-time.After(d):
		return false
	}
}

func debugf(format string, a ...interface{}) {
	if os.Getenv("HARNESS_DEBUG") != "" {
		fmt.Fprintf(os.Stderr, format+"\n", a...)
	}
}
