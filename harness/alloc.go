package main

// alloc suite (C05): memory allocated by one Decode call, measured with runtime.MemStats, for valid
// messages and for messages in which a declared length anywhere - string, byte string, structure,
// skipped item - is replaced by a large value.  The bound is linear in the bytes actually supplied.

import (
	"bytes"
	"encoding/binary"
	"encoding/hex"
	"flag"
	"fmt"
	"io"
	"math/rand"
	"reflect"
	"runtime"
	"runtime/debug"

	kmip "github.com/smira/go-kmip"
)

func init() { suites["alloc"] = suiteAlloc }

// one nested decoder (4 KiB bufio) per 8-byte structure header is the steepest legitimate slope
const allocPerByte = 700
const allocConst = 64 << 10

// oneByteReader hands out one byte per Read (no ByteScanner: NewDecoder buffers it)
type oneByteReader struct{ r io.Reader }

func (o oneByteReader) Read(p []byte) (int, error) {
	if len(p) == 0 {
		return 0, nil
	}
	return o.r.Read(p[:1])
}

func measureDecode(tn string, data []byte) (alloc uint64, obs string) {
	return measureDecodeFrom(tn, bytes.NewReader(data))
}

func measureDecodeFrom(tn string, src io.Reader) (alloc uint64, obs string) {
	t, _ := typeByName(tn)
	pv := reflect.New(t)
	var m0, m1 runtime.MemStats
	runtime.ReadMemStats(&m0)
	func() {
		defer func() {
			if p := recover(); p != nil {
				obs = "panic " + firstLine(fmt.Sprint(p))
			}
		}()
		err := kmip.NewDecoder(src).Decode(pv.Interface())
		if err == nil {
			obs = "ok"
		} else {
			obs = "err"
		}
	}()
	runtime.ReadMemStats(&m1)
	return m1.TotalAlloc - m0.TotalAlloc, obs
}

func suiteAlloc(args []string) {
	fs := flag.NewFlagSet("alloc", flag.ExitOnError)
	seed := fs.Int64("seed", 1, "")
	n := fs.Int("n", 40, "")
	dir := fs.String("dir", "work/alloc", "")
	fs.Parse(args)
	r := rand.New(rand.NewSource(*seed))
	cw := newCaseWriter(*dir)
	defer cw.close()
	rep := &Report{Suite: "alloc", Seed: *seed, Distribution: map[string]int{}}
	rep.Rule = fmt.Sprintf("one evaluation = one Decode call measured with runtime.MemStats.TotalAlloc; inputs: valid messages and every item header of them with its length replaced by 2^16, 2^20, 2^24, 2^31, 2^32-1 (plus truncations of those); one large value followed by many small ones in one message, and small messages after a 4 MiB one on the same Decoder; bound: %d*len + %d; non-trivial = a planted length", allocPerByte, allocConst)
	debug.SetGCPercent(-1)
	defer debug.SetGCPercent(100)
	planted := []uint32{1 << 16, 1 << 20, 1 << 24, 1 << 31, 0xffffffff, 0xfffffff8}
	worst := 0.0
	var worstCase map[string]interface{}
	stopped := false
	check := func(tn string, data []byte, what string) {
		if stopped {
			return
		}
		a, obs := measureDecode(tn, data)
		rep.Evaluations++
		// the same input through the reader-object decoder of Readers.v, whose allocation ledger theorem C05_alloc_linear bounds
		if len(data) <= 4096 {
			cw.add("alloc", "cdec "+tn+" 0 - 0 eof "+hexBytes(data), fmt.Sprintf("%s alloc=%d", obs, a))
		}
		bound := uint64(allocPerByte*len(data) + allocConst)
		ratio := float64(a) / float64(bound)
		if ratio > worst {
			worst = ratio
			worstCase = map[string]interface{}{"type": tn, "len": len(data), "alloc": a, "bound": bound, "what": what}
		}
		if a > bound {
			rep.Violations = append(rep.Violations, map[string]interface{}{"kind": "alloc", "type": tn, "bytes": hexBytes(data), "input_len": len(data), "allocated": a, "bound": bound, "what": what, "decode": obs})
			// each violation may have cost gigabytes and the collector is off: give the memory back, and stop after three
			runtime.GC()
			debug.FreeOSMemory()
			if len(rep.Violations) >= 3 {
				stopped = true
			}
		}
		if rep.Evaluations%64 == 0 {
			runtime.GC()
		}
		// the same bytes trickling in one per Read: memory must follow what has arrived, not the number of reads
		if what != "valid" && !stopped && len(data) <= 2048 && rep.Evaluations%3 == 0 {
			a2, obs2 := measureDecodeFrom(tn, oneByteReader{bytes.NewReader(data)})
			rep.Evaluations++
			rep.Distribution["trickled"]++
			if a2 > bound {
				rep.Violations = append(rep.Violations, map[string]interface{}{"kind": "alloc", "type": tn, "bytes": hexBytes(data), "input_len": len(data), "allocated": a2, "bound": bound,
					"what": what + " - delivered one byte per Read", "decode": obs2})
				runtime.GC()
				debug.FreeOSMemory()
				if len(rep.Violations) >= 3 {
					stopped = true
				}
			}
		}
	}
	for i := 0; i < *n; i++ {
		tn := []string{"Request", "Response"}[i%2]
		g := &gen{r: r, wf: true}
		v := g.genTop(tn)
		_, b := implEncode(v)
		if b == nil || len(b) > 4000 {
			continue
		}
		check(tn, b, "valid")
		rep.Distribution["valid"]++
		var all []*item
		walkItems(b, 0, 0, &all)
		// skip positions: an item under Message Extension (tag 420051) is never interpreted; plant lengths there too
		for _, it := range all {
			if it.typ == 1 && b[it.off] == 0x42 && b[it.off+1] == 0x00 && b[it.off+2] == 0x51 {
				for _, pl := range planted {
					extra := []byte{0x42, 0x00, 0x9c, 0x01, byte(pl >> 24), byte(pl >> 16), byte(pl >> 8), byte(pl)}
					repl := append(append([]byte(nil), b[it.off:it.end]...), extra...)
					binary.BigEndian.PutUint32(repl[4:], it.length+8)
					m := fixLengths(b, all, it, repl)
					check(tn, m, fmt.Sprintf("skipped item with length %#x appended inside Message Extension at offset %d", pl, it.off))
					rep.Nontrivial++
					rep.Distribution["planted:skip"]++
				}
			}
		}
		// two lengths lying together: a string / byte string and its enclosing structure(s)
		for _, it := range all {
			if it.typ != 7 && it.typ != 8 {
				continue
			}
			var anc []*item
			for _, a := range all {
				if a.typ == 1 && a.off < it.off && a.end >= it.end {
					anc = append(anc, a)
				}
			}
			if len(anc) == 0 {
				continue
			}
			parent := anc[len(anc)-1]
			for _, pair := range [][2]uint32{{1 << 29, 1 << 28}, {0x7fffffff, 0x7ffffff0}, {0xfffffff8, 0xfffffff0}, {1 << 24, 1<<24 - 8}} {
				for variant := 0; variant < 2; variant++ {
					m := append([]byte(nil), b...)
					binary.BigEndian.PutUint32(m[it.off+4:], pair[1])
					if variant == 0 {
						binary.BigEndian.PutUint32(m[parent.off+4:], pair[0])
					} else {
						for _, a := range anc {
							binary.BigEndian.PutUint32(m[a.off+4:], pair[0])
						}
					}
					check(tn, m, fmt.Sprintf("item at offset %d declares %#x and its enclosing structure(s) declare %#x", it.off, pair[1], pair[0]))
					check(tn, m[:it.hdrEnd], "the same, cut right after the item header")
					rep.Nontrivial++
					rep.Distribution["planted:pair"]++
				}
			}
		}
		// large integer VALUES (a count announced in the message - Batch Count, Located Items, an attribute index ... - is data,
		// not a length: nothing may be allocated on its say-so); also with the message cut right behind the item
		for _, it := range all {
			if it.typ != 2 && it.typ != 3 && it.typ != 5 {
				continue
			}
			for _, val := range []uint32{300000, 1 << 24, 0x7fffffff} {
				m := append([]byte(nil), b...)
				if it.typ == 3 {
					binary.BigEndian.PutUint64(m[it.hdrEnd:], uint64(val))
				} else {
					binary.BigEndian.PutUint32(m[it.hdrEnd:], val)
				}
				check(tn, m, fmt.Sprintf("integer item at offset %d (type %d) set to the value %d", it.off, it.typ, val))
				if it.end+3 <= len(m) {
					check(tn, m[:it.end+3], "the same, cut 3 bytes behind the item")
				}
				rep.Nontrivial++
				rep.Distribution["planted:integer-value"]++
			}
		}
		for _, it := range all {
			for _, pl := range planted {
				m := append([]byte(nil), b...)
				binary.BigEndian.PutUint32(m[it.off+4:], pl)
				check(tn, m, fmt.Sprintf("length of item at offset %d (type %d) set to %#x", it.off, it.typ, pl))
				rep.Nontrivial++
				rep.Distribution[fmt.Sprintf("planted:type%d", it.typ)]++
				if it.hdrEnd+4 < len(m) && pl == 1<<24 {
					check(tn, m[:it.hdrEnd+r.Intn(len(m)-it.hdrEnd)], "planted length, truncated")
				}
			}
		}
	}
	// a planted length with a LONG real payload behind it: the first k bytes of the value really arrive, then the stream
	// ends.  Memory must still follow what arrived (thresholds at which an implementation might start trusting the length)
	for _, k := range []int{1023, 1024, 1025, 4095, 4096, 4097, 32768, 65535, 65536, 65537, 65536 + 4096, 1 << 17, 1 << 20} {
		for _, pl := range []uint32{1 << 28, 1 << 31, 0xfffffff8} {
			if stopped {
				break
			}
			req := kmip.Request{Header: kmip.RequestHeader{Version: kmip.ProtocolVersion{Major: 1, Minor: 4}, BatchCount: 1},
				BatchItems: []kmip.RequestBatchItem{{Operation: kmip.OPERATION_GET, UniqueID: bytes.Repeat([]byte{0x5a}, k+64), RequestPayload: kmip.GetRequest{UniqueIdentifier: "k"}}}}
			_, b := implEncode(&req)
			if b == nil {
				continue
			}
			var all []*item
			walkItems(b, 0, 0, &all)
			for _, it := range all {
				if it.typ != 8 || int(it.length) != k+64 {
					continue
				}
				for variant := 0; variant < 2; variant++ {
					m := append([]byte(nil), b[:it.hdrEnd+k]...)
					binary.BigEndian.PutUint32(m[it.off+4:], pl)
					if variant == 1 { // the enclosing structures go along with the lie
						for _, a := range all {
							if a.typ == 1 && a.off < it.off && a.end >= it.end {
								binary.BigEndian.PutUint32(m[a.off+4:], pl+uint32(it.off-a.off)+8)
							}
						}
					}
					check("Request", m, fmt.Sprintf("byte string declaring %#x of which %d bytes arrive before the stream ends (enclosing lengths %s)", pl, k, []string{"honest", "planted"}[variant]))
					rep.Nontrivial++
					rep.Distribution["planted:long-payload"]++
				}
			}
		}
	}
	// honest but LONG: one repeated field with tens of thousands of items (all lengths true): total allocation stays linear
	for _, items := range []int{20000, 60000} {
		if stopped {
			break
		}
		names := make([]string, items)
		for i := range names {
			names[i] = "a"
		}
		req := kmip.Request{Header: kmip.RequestHeader{Version: kmip.ProtocolVersion{Major: 1, Minor: 4}, BatchCount: 1},
			BatchItems: []kmip.RequestBatchItem{{Operation: kmip.OPERATION_GET_ATTRIBUTES, RequestPayload: kmip.GetAttributesRequest{UniqueIdentifier: "k", AttributeNames: names}}}}
		_, b := implEncode(&req)
		if b == nil {
			continue
		}
		check("Request", b, fmt.Sprintf("valid request: one repeated field with %d items", items))
		rep.Nontrivial++
		rep.Distribution["long-repeated-field"]++
	}
	// honest but DEEP: a recursive user-defined type nested thousands of levels (library types nest ~7 levels): memory must
	// stay linear in the input, not grow with depth x size
	for _, depth := range []int{400, 1600} {
		if stopped {
			break
		}
		var node UTreeNode
		cur := &node
		for d := 0; d < depth; d++ {
			cur.Label = "n"
			cur.Children = []UTreeNode{{}}
			cur = &cur.Children[0]
		}
		cur.Label = "leaf"
		_, b := implEncode(node)
		if b == nil {
			continue
		}
		var m0, m1 runtime.MemStats
		var out UTreeNode
		runtime.GC()
		runtime.ReadMemStats(&m0)
		err := kmip.NewDecoder(bytes.NewReader(b)).Decode(&out)
		runtime.ReadMemStats(&m1)
		a := m1.TotalAlloc - m0.TotalAlloc
		rep.Evaluations++
		rep.Nontrivial++
		rep.Distribution["deep-recursive-type"]++
		bound := uint64(allocPerByte*len(b) + allocConst)
		if a > bound {
			rep.Violations = append(rep.Violations, map[string]interface{}{"kind": "alloc", "type": "UTreeNode (recursive user-defined type)", "input_len": len(b), "allocated": a, "bound": bound,
				"what": fmt.Sprintf("a well-formed message nested %d levels deep", depth), "decode_error": fmt.Sprint(err)})
			runtime.GC()
			debug.FreeOSMemory()
		}
	}
	// one legitimately large value, then many small ones - in one message, and in a later message on the same Decoder:
	// memory must follow the bytes of the item / message being read, not the largest value seen so far
	for _, big := range []int{64 << 10, 1 << 20} {
		for _, count := range []int{40, 400} {
			if stopped {
				break
			}
			req := kmip.Request{Header: kmip.RequestHeader{Version: kmip.ProtocolVersion{Major: 1, Minor: 4}, BatchCount: int32(count)}}
			for j := 0; j < count; j++ {
				id := []byte{byte(j), byte(j >> 8)}
				if j == 0 {
					id = bytes.Repeat([]byte{0x5a}, big)
				}
				req.BatchItems = append(req.BatchItems, kmip.RequestBatchItem{Operation: kmip.OPERATION_GET, UniqueID: id,
					RequestPayload: kmip.GetRequest{UniqueIdentifier: fmt.Sprintf("key-%d", j)}})
			}
			_, b := implEncode(&req)
			if b == nil {
				continue
			}
			check("Request", b, fmt.Sprintf("valid request: a %d-byte batch item id followed by %d small items", big, count-1))
			rep.Nontrivial++
			rep.Distribution["large-then-small"]++
		}
	}
	if !stopped {
		bigReq := kmip.Request{Header: kmip.RequestHeader{Version: kmip.ProtocolVersion{Major: 1, Minor: 4}, BatchCount: 1},
			BatchItems: []kmip.RequestBatchItem{{Operation: kmip.OPERATION_GET, UniqueID: bytes.Repeat([]byte{0x5a}, 4<<20), RequestPayload: kmip.GetRequest{UniqueIdentifier: "k"}}}}
		smallReq := kmip.Request{Header: kmip.RequestHeader{Version: kmip.ProtocolVersion{Major: 1, Minor: 4}, BatchCount: 1},
			BatchItems: []kmip.RequestBatchItem{{Operation: kmip.OPERATION_GET, UniqueID: []byte{1}, RequestPayload: kmip.GetRequest{UniqueIdentifier: "k"}}}}
		_, bb := implEncode(&bigReq)
		_, sb := implEncode(&smallReq)
		if bb != nil && sb != nil {
			for _, src := range []string{"bytes.Reader", "plain reader"} {
				var rdr io.Reader = bytes.NewReader(append(append([]byte(nil), bb...), bytes.Repeat(sb, 5)...))
				if src == "plain reader" {
					rdr = plainReader{rdr}
				}
				d := kmip.NewDecoder(rdr)
				var first kmip.Request
				if err := d.Decode(&first); err != nil {
					continue
				}
				for k := 0; k < 5; k++ {
					var m0, m1 runtime.MemStats
					var next kmip.Request
					runtime.ReadMemStats(&m0)
					err := d.Decode(&next)
					runtime.ReadMemStats(&m1)
					a := m1.TotalAlloc - m0.TotalAlloc
					rep.Evaluations++
					rep.Nontrivial++
					rep.Distribution["small-after-large-on-one-decoder"]++
					bound := uint64(allocPerByte*len(sb) + allocConst)
					if err != nil || a > bound {
						rep.Violations = append(rep.Violations, map[string]interface{}{"kind": "alloc", "type": "Request", "input_len": len(sb), "allocated": a, "bound": bound, "decode_error": fmt.Sprint(err),
							"what": fmt.Sprintf("a %d-byte request decoded on a Decoder (%s) that had decoded a 4 MiB request before (message %d after it)", len(sb), src, k+1), "bytes": hexBytes(sb)})
						runtime.GC()
						debug.FreeOSMemory()
						break
					}
				}
			}
		}
	}
	if worstCase != nil {
		worstCase["ratio_to_bound"] = worst
		rep.Samples = append(rep.Samples, worstCase)
	}
	_ = hex.EncodeToString
	rep.emit()
}
