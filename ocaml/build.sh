#!/bin/sh
# extracts the Coq models (coqc Extract.v writes model.ml/.mli here) and builds ./driver
set -e
cd "$(dirname "$0")"
stamp=$(cat ../coq/theories/Generated.v ../coq/theories/*.v driver.ml common.ml ext.ml build.sh 2>/dev/null | sha256sum | cut -c1-16)
if [ -x driver ] && [ -f .stamp ] && [ "$(cat .stamp)" = "$stamp" ]; then exit 0; fi
rm -f .stamp
timeout 900 coqc -R ../coq/theories KMIP ../coq/theories/Extract.v >/dev/null
ocamlfind ocamlopt -w -a -o driver model.mli model.ml common.ml ext.ml driver.ml
echo "$stamp" > .stamp
