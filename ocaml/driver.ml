(* driver.ml - runs the extracted Coq models on cases read from stdin, one per line,
   and prints one result per line.  Hand-written glue (trusted): parsing / printing only. *)
open Model
open Common

let show_dec r =
  match r with
  | Ok (((v, _), st)) -> Printf.sprintf "ok %s %d" (show_val v) (List.length st.rest)
  | ErrEOF -> "eof"
  | Err -> "err"
  | OutOfFuel -> "fuel"

let handle (line : string) : string =
  let cmd, rest = split1 line in
  match cmd with
  | "enc" -> (match inst_enc_top (val_of_string rest) with Some b -> "ok " ^ hex_of_bytes b | None -> "err")
  | "dec" ->
      let ty, hex = split1 rest in
      show_dec (inst_dec_top (coqstr ty) (bytes_of_hex hex))
  | "spec" ->
      (* the specification (Denote.v): same output format as "dec"; every rejection is "rej" *)
      let ty, hex = split1 rest in
      let bs = bytes_of_hex hex in
      (match inst_spec_decode (coqstr ty) bs with
       | Some (v, n) -> Printf.sprintf "ok %s %d" (show_val v) (List.length bs - int_of_n n)
       | None -> "rej")
  | "norm" -> show_val (inst_normalize (val_of_string rest))
  | "rt" ->
      (* what a correct implementation prints: bytes, Decode(Encode v) = normalize v, re-encoding identical *)
      let v = val_of_string rest in
      (match inst_enc_top v, v with
       | Some b, (VStruct (ty, _) | VPtr (VStruct (ty, _))) ->
           let self_ok =
             (match inst_dec_top ty b with
              | Ok (((v', _), st)) ->
                  st.rest = [] && show_val v' = show_val (inst_normalize v)
                  && (match inst_enc_top v' with Some b' -> b' = b | None -> false)
              | _ -> false) in
           (* the hypothesis of theorem C01_roundtrip, evaluated: a value with a proper top-level tag that satisfies it
              MUST round-trip in the model; one that does not is reported as outside the theorem *)
           let wfb = inst_wf_b v in
           if wfb && not self_ok then "theorem-contradicted"
           else Printf.sprintf "ok %s %s %s" (hex_of_bytes b) (show_val (inst_normalize v)) (if self_ok then "1" else "model-roundtrip-fails")
       | _ -> "err")
  | "stream" ->
      let ty, hex = split1 rest in
      let rec go n bs acc =
        if n = 0 then List.rev ("fuel" :: acc) else
        match inst_dec_top (coqstr ty) bs with
        | Ok (((v, _), st)) -> go (n - 1) st.rest (show_val v :: acc)
        | ErrEOF -> List.rev ("eof" :: acc)
        | Err -> List.rev ("err" :: acc)
        | OutOfFuel -> List.rev ("fuel" :: acc) in
      String.concat " | " (go 64 (bytes_of_hex hex) [])
  | "cdec" | "cstream" ->
      (* cdec <type> <mode> <sizes|-> <weof 0|1> <term eof|ioe> <hex>
         the decoder on reader objects (Readers.v): mode 0 io.ByteScanner source, 1 NewDecoder's bufio, n a bufio of size n;
         sizes = the transport's read sizes (comma separated, 0 = empty read; - = everything at once) *)
      (match split_on ' ' rest with
       | [ ty; mode; sizes; weof; term; hex ] ->
           let data = bytes_of_hex hex in
           let b = { b_data = data; b_sizes = (if sizes = "-" then [] else List.map (fun x -> n_of_int (int_of_string x)) (split_on ',' sizes));
                     b_weof = (weof = "1"); b_term = (if term = "eof" then EOF else IOE) } in
           let fin st = Printf.sprintf "left=%d buffered=%d alloc=%d" (List.length st.rd.bs.b_data)
                          (List.length (rden st.rd) - List.length st.rd.bs.b_data) (int_of_n st.alloc) in
           if cmd = "cdec" then begin
             let (r, st) = inst_cdec (coqstr ty) (n_of_int (int_of_string mode)) b in
             (match r with
              | Ok (v, _) -> "ok " ^ show_val v
              | ErrEOF -> "eof" | Err -> "err" | OutOfFuel -> "fuel") ^ " | " ^ fin st
           end else begin
             let ((vs, e), st) = inst_cstream (Ext.nat_of_int 64) (coqstr ty) (n_of_int (int_of_string mode)) b in
             String.concat " | " (List.map show_val vs @ [ (match e with SEOF -> "eof" | SErr -> "err" | SFuel -> "fuel") ]) ^ " | " ^ fin st
           end
       | _ -> "driver-error cdec syntax")
  | "wf" -> if inst_wf_b (val_of_string rest) then "wf" else "not-wf"
  | "hello" -> if type_codes_b then "hello ok" else "hello type-codes-differ"
  | _ -> Ext.handle cmd rest

let () =
  try
    while true do
      let line = input_line stdin in
      let out = try handle line with Failure m -> "driver-error " ^ m | Not_found -> "driver-error not_found" | Stack_overflow -> "driver-error stack" in
      print_string out;
      print_char '\n'
    done
  with End_of_file -> ()
