(* ext.ml - model commands beyond the codec: session, ... (parsing / printing glue) *)
open Model
open Common

let z_of_int i = if i = 0 then Z0 else if i > 0 then Zpos (pos_of_int i) else Zneg (pos_of_int (-i))

(* cfg text: rt=0 wt=1 sa=none|ok|fail ra=0|1 ops=1,a,1e sv=1.4,1.3 sid=<hex> st=<hex> now=<hexz> *)
let parse_cfg (s : string) : cfg =
  let kv = List.map (fun t -> split1 (String.map (fun c -> if c = '=' then ' ' else c) t)) (split_on ' ' s) in
  let get k d = try List.assoc k kv with Not_found -> d in
  { c_read_to = get "rt" "0" = "1";
    c_write_to = get "wt" "0" = "1";
    c_sess_auth = (match get "sa" "none" with "ok" -> Some true | "fail" -> Some false | _ -> None);
    c_req_auth = get "ra" "0" = "1";
    c_ops = List.map n_of_hex (split_on ',' (get "ops" ""));
    c_supported =
      List.map
        (fun p -> match String.split_on_char '.' p with
           | [a; b] -> (z_of_int (int_of_string a), z_of_int (int_of_string b))
           | _ -> failwith "version")
        (split_on ',' (get "sv" ""));
    c_sid = bytes_of_hex (get "sid" "_");
    c_sauth = bytes_of_hex (get "st" "_");
    c_now = z_of_hex (get "now" "0") }

(* script text: comma separated  S:<val with spaces replaced by ~>  F:<hex>  R:<hex>:<reason hex>  P:<hex> *)
let parse_behaviour (s : string) : behaviour =
  match String.split_on_char ':' s with
  | "S" :: rest -> BSuccess (val_of_string (String.map (fun c -> if c = '~' then ' ' else c) (String.concat ":" rest)))
  | [ "F"; m ] -> BFail (bytes_of_hex m)
  | [ "R"; m; r ] -> BFailReason (bytes_of_hex m, n_of_hex r)
  | [ "P"; m ] -> BPanic (bytes_of_hex m)
  | _ -> failwith ("behaviour " ^ s)

let show_event (e : event) : string =
  match e with
  | EArmRead -> "armr"
  | EArmWrite -> "armw"
  | ESessAuth ok -> if ok then "sa:ok" else "sa:fail"
  | EReqAuth (creds, ok) -> "ra:" ^ show_val creds ^ (if ok then ":ok" else ":fail")
  | ECall (sid, sa, ra, op, payload) ->
      Printf.sprintf "call:%s:%s:%s:%s:%s" (hex_of_bytes sid) (hex_of_bytes sa)
        (match ra with Some b -> hex_of_bytes b | None -> "nil") (hex_of_n op) (show_val payload)
  | EWrote b -> "wrote:" ^ hex_of_bytes b
  | EEncodeFailed -> "encfail"
  | EClose _ -> "close"
  | EOutOfFuel -> "fuel"

let handle (cmd : string) (rest : string) : string =
  match cmd with
  | "session" ->
      (match String.split_on_char '|' rest with
       | [ c; sc; inp ] ->
           let c = parse_cfg (String.trim c) in
           let script = List.map parse_behaviour (split_on ',' (String.trim sc)) in
           let evs = inst_session c (bytes_of_hex (String.trim inp)) script in
           String.concat " ; " (List.map show_event (List.filter (fun e -> e <> EEncodeFailed) evs))
       | _ -> "driver-error session syntax")
  | _ -> "unknown-command " ^ cmd
