(* ext.ml - further model commands (session, accept loop, ...) are added here *)
let handle (cmd : string) (_rest : string) : string = "unknown-command " ^ cmd
