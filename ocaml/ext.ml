(* ext.ml - model commands beyond the codec: session, ... (parsing / printing glue) *)
open Model
open Common

let rec nat_of_int i = if i <= 0 then O else S (nat_of_int (i - 1))
let rec int_of_nat = function O -> 0 | S n -> 1 + int_of_nat n
let int_of_z = function Z0 -> 0 | Zpos p -> int_of_pos p | Zneg p -> - (int_of_pos p)
let z_of_int i = if i = 0 then Z0 else if i > 0 then Zpos (pos_of_int i) else Zneg (pos_of_int (-i))

(* cfg text: rt=0 wt=1 sa=none|ok|fail ra=0|1 ops=1,a,1e sv=1.4,1.3 sid=<hex> st=<hex> now=<hexz> *)
let parse_cfg (s : string) : cfg =
  let kv = List.map (fun t -> split1 (String.map (fun c -> if c = '=' then ' ' else c) t)) (split_on ' ' s) in
  let get k d = try List.assoc k kv with Not_found -> d in
  { c_read_to = get "rt" "0" = "1";
    c_write_to = get "wt" "0" = "1";
    c_tls = (match get "tls" "none" with "ok" -> Some true | "fail" -> Some false | _ -> None);
    c_sess_auth = (match get "sa" "none" with "ok" -> Some true | "fail" -> Some false | _ -> None);
    c_req_auth = get "ra" "0" = "1";
    c_ops = List.map n_of_hex (split_on ',' (get "ops" ""));
    c_supported =
      List.map
        (fun p -> match String.split_on_char '.' p with
           | [a; b] -> (z_of_int (int_of_string a), z_of_int (int_of_string b))
           | _ -> failwith "version")
        (split_on ',' (get "sv" ""));
    c_sid = bytes_of_hex (get "sid" "_");
    c_sauth = bytes_of_hex (get "st" "_");
    c_now = z_of_hex (get "now" "0") }

(* script text: comma separated  S:<val with spaces replaced by ~>  F:<hex>  R:<hex>:<reason hex>  P:<hex> *)
let parse_behaviour (s : string) : behaviour =
  match String.split_on_char ':' s with
  | "S" :: rest -> BSuccess (val_of_string (String.map (fun c -> if c = '~' then ' ' else c) (String.concat ":" rest)))
  | [ "F"; m ] -> BFail (bytes_of_hex m)
  | [ "R"; m; r ] -> BFailReason (bytes_of_hex m, n_of_hex r)
  | [ "P"; m ] -> BPanic (bytes_of_hex m)
  | _ -> failwith ("behaviour " ^ s)

let show_event (e : event) : string =
  match e with
  | EArmRead -> "armr"
  | EArmWrite -> "armw"
  | EHandshake ok -> if ok then "hs:ok" else "hs:fail"
  | ESessAuth ok -> if ok then "sa:ok" else "sa:fail"
  | EReqAuth (creds, ok) -> "ra:" ^ show_val creds ^ (if ok then ":ok" else ":fail")
  | ECall (sid, sa, ra, op, payload) ->
      Printf.sprintf "call:%s:%s:%s:%s:%s" (hex_of_bytes sid) (hex_of_bytes sa)
        (match ra with Some b -> hex_of_bytes b | None -> "nil") (hex_of_n op) (show_val payload)
  | EWrote b -> "wrote:" ^ hex_of_bytes b
  | EEncodeFailed -> "encfail"
  | EClose _ -> "close"
  | EOutOfFuel -> "fuel"


(* ---------- user-defined structure types (UserTypes.v) ----------
   declarations, space separated:   #Name=<type>   a defined non-struct type and its underlying type
                                    Name{f;f;...}  a struct; f = [.]fieldname=<type>=<annotation or ~>   (. = unexported)
   <type> = int32 int64 enum bool bytes string time duration iface tag  []<type>  @Name  ?<description of any other type> *)
let rec parse_gty (s : string) : gty =
  let n = String.length s in
  if n >= 2 && String.sub s 0 2 = "[]" then TSliceOf (parse_gty (String.sub s 2 (n - 2)))
  else if n >= 1 && s.[0] = '@' then TNamed (coqstr (String.sub s 1 (n - 1)))
  else if n >= 1 && s.[0] = '?' then TOther (coqstr (String.sub s 1 (n - 1)))
  else match s with
    | "int32" -> TInt32 | "int64" -> TInt64 | "enum" -> TEnum | "bool" -> TBool | "bytes" -> TBytes
    | "string" -> TString | "time" -> TTime | "duration" -> TDuration | "iface" -> TIface | "tag" -> TTagTy
    | _ -> failwith ("type " ^ s)

let parse_decls (s : string) : (char list * gty) list * rawstruct list =
  let named = ref [] and structs = ref [] in
  List.iter (fun d ->
      if d = "" then ()
      else if d.[0] = '#' then begin
        match String.index_opt d '=' with
        | Some i -> named := (coqstr (String.sub d 1 (i - 1)), parse_gty (String.sub d (i + 1) (String.length d - i - 1))) :: !named
        | None -> failwith "defined type"
      end else begin
        match String.index_opt d '{' with
        | Some i when d.[String.length d - 1] = '}' ->
            let name = String.sub d 0 i in
            let body = String.sub d (i + 1) (String.length d - i - 2) in
            let fields = List.map (fun f ->
                match String.split_on_char '=' f with
                | [ fname; ty; ann ] ->
                    let unexp = String.length fname > 0 && fname.[0] = '.' in
                    let fname = if unexp then String.sub fname 1 (String.length fname - 1) else fname in
                    { rf_name = coqstr fname; rf_exported = not unexp; rf_type = parse_gty ty;
                      rf_has_ann = (ann <> "~"); rf_ann = coqstr (if ann = "~" then "" else ann) }
                | _ -> failwith ("field " ^ f)) (split_on ';' body) in
            structs := { rs_name = coqstr name; rs_file = coqstr "user"; rs_fields = fields } :: !structs
        | _ -> failwith ("declaration " ^ d)
      end) (split_on ' ' s);
  (List.rev !named, List.rev !structs)

let show_desc (r : sdesc res) : string =
  match r with
  | RErr _ -> "err"
  | ROk sd ->
      String.concat " " (("tag=" ^ hex_of_n sd.sd_tag) ::
        List.map (fun f ->
            let typ, dyn = match f.fd_typ with
              | FPrim k -> (hex_of_n (type_code k), false)
              | FStruct _ -> (hex_of_n tc_structure, false)
              | FDyn -> (hex_of_n tc_structure, true) in
            Printf.sprintf "%s:%s:%s:%b:%b:%b:%b" (ocamlstr f.fd_name) (hex_of_n f.fd_tag) typ f.fd_req f.fd_slice f.fd_skip dyn)
          sd.sd_fields)

let handle_user (cmd : string) (rest : string) : string =
  match String.split_on_char '|' rest with
  | [ decls; arg ] ->
      let named, structs = parse_decls (String.trim decls) in
      let arg = String.trim arg in
      (match cmd with
       | "udesc" -> show_desc (user_desc named structs (coqstr arg))
       | "uenc" -> (match user_enc named structs (val_of_string arg) with Some b -> "ok " ^ hex_of_bytes b | None -> "err")
       | "udec" ->
           let ty, hex = split1 arg in
           (match user_dec named structs (coqstr ty) (bytes_of_hex hex) with
            | Ok (((v, _), st)) -> Printf.sprintf "ok %s %d" (show_val v) (List.length st.rest)
            | ErrEOF -> "eof" | Err -> "err" | OutOfFuel -> "fuel")
       | _ -> "unknown-command " ^ cmd)
  | _ -> "driver-error user-type syntax"

let handle (cmd : string) (rest : string) : string =
  match cmd with
  | "udesc" | "uenc" | "udec" -> handle_user cmd rest
  | "session" ->
      (match String.split_on_char '|' rest with
       | [ c; sc; inp ] ->
           let c = parse_cfg (String.trim c) in
           let script = List.map parse_behaviour (split_on ',' (String.trim sc)) in
           let evs = inst_session c (bytes_of_hex (String.trim inp)) script in
           String.concat " ; " (List.map show_event (List.filter (fun e -> e <> EEncodeFailed) evs))
       | _ -> "driver-error session syntax")
  | "discover" ->
      (* discover <sup> | <offer>   versions as a.b comma separated; heap = [array of sup] *)
      (match String.split_on_char '|' rest with
       | [ sv; off ] ->
           let pvs t = List.map (fun p -> match String.split_on_char '.' p with
               | [a; b] -> (z_of_int (int_of_string a), z_of_int (int_of_string b)) | _ -> failwith "version")
               (split_on ',' (String.trim t)) in
           let sup = pvs sv and offer = pvs off in
           let n = nat_of_int (List.length sup) in
           let h = [ sup ] in
           let sl = { s_arr = O; s_off = O; s_len = n; s_cap = n } in
           let (h', res) = handle_discover h sl offer in
           let show l = String.concat "," (List.map (fun (a, b) -> Printf.sprintf "%d.%d" (int_of_z a) (int_of_z b)) l) in
           let aliased = (int_of_nat res.s_cap > 0 && int_of_nat res.s_arr = 0) || (List.nth h' 0 <> sup) in
           Printf.sprintf "%s|%s" (show (elems h' res)) (if aliased then "aliased" else "fresh")
       | _ -> "driver-error discover syntax")
  | "accept" ->
      (* accept <tokens>: T temporary error, C connection, P permanent error, S shutdown (then the listener's error) *)
      let toks = List.init (String.length rest) (String.get rest) in
      let rec conv l = match l with
        | [] -> []
        | 'T' :: r -> ATemp false :: conv r
        | 'C' :: r -> AConn false :: conv r
        | 'P' :: r -> APerm false :: conv r
        | 'S' :: _ -> [ APerm true ]
        | 'W' :: _ -> [ APerm true ]
        | 'Z' :: _ -> [ ATemp true ]
        | 'L' :: _ -> [ AConn true ]
        | _ -> failwith "token" in
      let (acts, res) = serve (conv toks) in
      let show_act = function
        | Sleep d -> Printf.sprintf "sleep:%d" (int_of_n d)
        | ServeConn i -> Printf.sprintf "serve:%08x" (int_of_n (session_id i))   (* the id the session's handlers see *)
        | CloseLate i -> Printf.sprintf "late:%d" (int_of_nat i) in
      String.concat "," (List.map show_act acts) ^ "|" ^ (match res with ARNil -> "nil" | ARErr -> "err" | ARRunning -> "running")
  | "clientlife" ->
      (* clientlife <ops>: cG connect to a good peer; cP cU cD connect fails (plain TCP / untrusted certificate / refused);
         x close; s send   -> one outcome per op *)
      let op t = (match t with
        | "cG" -> CConnect Connects | "cP" | "cU" | "cD" -> CConnect DialFails
        | "x" -> CClose | "s" -> CSend | _ -> failwith "clientlife op") in
      let outs = clife_run clife0 (List.map op (split_on ' ' (String.trim rest))) in
      String.concat " " (List.map (function LOk -> "ok" | LErr -> "err" | LExchange -> "exchange" | LPanic -> "panic") outs)
  | "client" | "clientdv" ->
      (* client conn=1 rt=0 wt=1 ver=1.4 op=<hex> | <payload val or offer> | <reply hex> *)
      (match String.split_on_char '|' rest with
       | [ c; pl; reply ] ->
           let kv = List.map (fun t -> split1 (String.map (fun ch -> if ch = '=' then ' ' else ch) t)) (split_on ' ' (String.trim c)) in
           let get k d = try List.assoc k kv with Not_found -> d in
           let ver = match String.split_on_char '.' (get "ver" "1.4") with
             | [a; b] -> (z_of_int (int_of_string a), z_of_int (int_of_string b)) | _ -> failwith "ver" in
           let cc = { cc_connected = get "conn" "1" = "1"; cc_read_to = get "rt" "0" = "1"; cc_write_to = get "wt" "0" = "1"; cc_version = ver } in
           let show_ev = function CArmWrite -> "armw" | CArmRead -> "armr" | CSent b -> "sent:" ^ hex_of_bytes b in
           let evs_s evs = String.concat "," (List.map show_ev evs) in
           let reply = bytes_of_hex (String.trim reply) in
           if cmd = "client" then begin
             let (evs, r) = inst_send cc (n_of_hex (get "op" "0")) (val_of_string (String.trim pl)) reply in
             evs_s evs ^ " => " ^ (match r with
               | SPayload v -> "payload " ^ show_val v
               | SServerError (reason, m) -> Printf.sprintf "srverr %s %s" (hex_of_n reason) (hex_of_bytes m)
               | SError -> "err")
           end else begin
             let offer = List.map (fun p -> match String.split_on_char '.' p with
                 | [a; b] -> (z_of_int (int_of_string a), z_of_int (int_of_string b)) | _ -> failwith "version")
                 (split_on ',' (String.trim pl)) in
             let (evs, r) = inst_discover_versions cc offer reply in
             evs_s evs ^ " => " ^ (match r with
               | DVVersions vs -> "versions " ^ String.concat "," (List.map (fun (a, b) -> Printf.sprintf "%d.%d" (int_of_z a) (int_of_z b)) vs)
               | DVServerError (reason, m) -> Printf.sprintf "srverr %s %s" (hex_of_n reason) (hex_of_bytes m)
               | DVError -> "err")
           end
       | _ -> "driver-error client syntax")
  | "tls" ->
      (* tls <role> <maxversion hex> <cert> <plaintext 0|1>
         role: server | client (fresh config), server-weak | client-weak (config pre-populated with weaker values
         before the Default*TLSConfig call), intended-server | intended-client (the configuration the property demands) *)
      (match split_on ' ' rest with
       | [ role; mv; ck; pt ] ->
           let cert = (match ck with "none" -> CertNone | "valid" -> CertValid | "selfsigned" -> CertSelfSigned
                                   | "otherca" -> CertOtherCA | "expired" -> CertExpired | "wronghost" -> CertWrongHost | _ -> failwith "cert") in
           let p = { max_version = n_of_hex mv; cert = cert; plaintext = pt = "1" } in
           let weak_server = { min_version = n_of_int 769; cauth = VerifyClientCertIfGiven; insecure_skip_verify = false } in
           let weak_client = { min_version = n_of_int 769; cauth = NoClientCert; insecure_skip_verify = false } in
           let intended_server = { min_version = n_of_int 771; cauth = RequireAndVerifyClientCert; insecure_skip_verify = false } in
           let intended_client = { min_version = n_of_int 771; cauth = NoClientCert; insecure_skip_verify = false } in
           let is_server = (role = "server" || role = "server-weak" || role = "server-shared" || role = "intended-server") in
           let cfg = (match role with
             | "server" -> inst_server_tls | "client" -> inst_client_tls
             | "server-shared" -> (match inst_server_tls with Some s -> inst_client_tls_from s | None -> None)
             | "server-weak" -> inst_server_tls_from weak_server | "client-weak" -> inst_client_tls_from weak_client
             | "intended-server" -> Some intended_server | "intended-client" -> Some intended_client
             | _ -> failwith "role") in
           (match cfg with
            | None -> "config-not-understood"
            | Some c -> if (if is_server then server_handshake_ok c p else client_handshake_ok c p) then "admitted" else "refused")
       | _ -> "driver-error tls syntax")
  | "shutdown" ->
      (* forced schedule tokens -> labels of the interleaving model (Shutdown.v); while Shutdown is closing the
         listener it holds the mutex, so a released connection is registered only after the close went through *)
      let apply s l = match step true s l with Some s' -> s' | None -> s in
      let apply_all s ls = List.fold_left apply s ls in
      let internal = [ LWaitReturn; LWaitSignal; LShSelectDone; LShSelectCtx; LAcceptFail ] in
      (* all states reachable by internal steps in which no internal step is enabled any more *)
      let rec explore (s : st) : st list =
        let succs = List.filter_map (fun l -> step true s l) internal in
        if succs = [] then [ s ] else List.concat_map explore succs in
      let uniq l = List.sort_uniq compare l in
      (* schedules without the token V start with Serve already running *)
      let states = ref [ (if String.contains rest 'V' then init else apply init LServeStart) ] in
      let serving = ref (not (String.contains rest 'V')) in
      let mutex_held = ref false and deferred = ref [] in
      String.iter
        (fun tok ->
          let labels =
            match tok with
            | 'c' -> [ LConnect; LAcceptDequeue ]
            | 'r' ->
                if !mutex_held then (deferred := !deferred @ [ LRegister; LSpawn; LAcceptDequeue ]; [])
                else [ LRegister; LSpawn; LAcceptDequeue ]
            | '0' | '1' -> []     (* the peer goes away: the session runs up to its conn.Close(), which is held *)
            | 'q' -> [ LReqStart O ]            (* a request arrives on session 0 and its handler blocks *)
            | 'w' -> [ LReqStart (S O) ]
            | 'h' -> [ LReqEnd O ]              (* the handler of session 0 is released: the response is written *)
            | 'j' -> [ LReqEnd (S O) ]
            | 'a' -> [ LSessClose O; LSessDone O ]
            | 'b' -> [ LSessClose (S O); LSessDone (S O) ]
            | 'V' -> serving := true; [ LServeStart ]
            | 'S' ->
                if !serving then (mutex_held := true; [ LShCloseDone ])
                else [ LShCloseDone; LShCloseListener; LShStartWaiter ]     (* no listener stored yet: nothing to close, nothing holds it *)
            | 'k' -> if !mutex_held then (mutex_held := false; let d = !deferred in deferred := []; [ LShCloseListener ] @ d @ [ LShStartWaiter ]) else []
            | 'x' -> [ LCtxExpire ]
            | _ -> failwith "token" in
          states := uniq (List.concat_map (fun s -> explore (apply_all s labels)) !states))
        rest;
      let show_sh s = match s.s_pc with SNotCalled -> "notcalled" | SReturned RNil -> "nil" | SReturned RCtx -> "ctx" | SReturned RErr0 -> "err" | _ -> "pending" in
      let show_serve s = match s.a_pc with AReturned RNil -> "nil" | AReturned _ -> "err" | _ -> "running" in
      let show_conn = function SNone -> "none" | SRegistered | SRunning -> "running" | SInFlight -> "inflight" | SClosed | SEnded -> "ended" | SLateClosed -> "late" in
      let count c l = List.length (List.filter (fun x -> int_of_nat x = c) l) in
      let show_conns s = String.concat "," (List.mapi (fun i x -> Printf.sprintf "%s:%d" (show_conn x) (count i s.answered)) s.sess) in
      let set f = String.concat "/" (uniq (List.map f !states)) in
      Printf.sprintf "sh=%s serve=%s conns=%s" (set show_sh) (set show_serve) (set show_conns)
  | _ -> "unknown-command " ^ cmd
