(* common.ml - parsing / printing glue shared by the model drivers (trusted, hand-written) *)
open Model

let rec pos_of_int n =
  if n = 1 then XH else if n land 1 = 0 then XO (pos_of_int (n lsr 1)) else XI (pos_of_int (n lsr 1))
let n_of_int n = if n = 0 then N0 else Npos (pos_of_int n)
let rec int_of_pos = function XH -> 1 | XO p -> 2 * int_of_pos p | XI p -> 2 * int_of_pos p + 1
let int_of_n = function N0 -> 0 | Npos p -> int_of_pos p

(* hex <-> positive, bitwise, no size limit *)
let hexval c =
  match c with
  | '0' .. '9' -> Char.code c - 48
  | 'a' .. 'f' -> Char.code c - 87
  | 'A' .. 'F' -> Char.code c - 55
  | _ -> failwith "hex digit"

let n_of_hex (s : string) : n =
  (* most significant digit first *)
  let acc = ref N0 in
  String.iter
    (fun c ->
      let d = hexval c in
      for i = 3 downto 0 do
        let bit = (d lsr i) land 1 in
        acc :=
          (match !acc with
          | N0 -> if bit = 1 then Npos XH else N0
          | Npos p -> Npos (if bit = 1 then XI p else XO p))
      done)
    s;
  !acc

let hex_of_n (x : n) : string =
  match x with
  | N0 -> "0"
  | Npos p ->
      let bits = ref [] in
      let rec go = function XH -> bits := 1 :: !bits | XO q -> bits := 0 :: !bits; go q | XI q -> bits := 1 :: !bits; go q in
      (* least significant first when traversing; we cons so that after traversal the head is the MOST significant *)
      go p;
      let l = !bits in
      let len = List.length l in
      let padn = (4 - (len mod 4)) mod 4 in
      let l = List.init padn (fun _ -> 0) @ l in
      let b = Buffer.create 16 in
      let rec emit = function
        | a :: b' :: c :: d :: r ->
            Buffer.add_char b "0123456789abcdef".[(a lsl 3) lor (b' lsl 2) lor (c lsl 1) lor d];
            emit r
        | [] -> ()
        | _ -> failwith "emit"
      in
      emit l;
      Buffer.contents b

let z_of_hex (s : string) : z =
  if String.length s > 0 && s.[0] = '-' then
    (match n_of_hex (String.sub s 1 (String.length s - 1)) with N0 -> Z0 | Npos p -> Zneg p)
  else match n_of_hex s with N0 -> Z0 | Npos p -> Zpos p

let hex_of_z = function Z0 -> "0" | Zpos p -> hex_of_n (Npos p) | Zneg p -> "-" ^ hex_of_n (Npos p)

(* ExtrOcamlString extracts Coq's [byte] to OCaml [char] *)
let byte_of_int i = Char.chr i
let int_of_byte b = Char.code b

let bytes_of_hex (s : string) : char list =
  if s = "_" then []
  else begin
    let n = String.length s / 2 in
    List.init n (fun i -> byte_of_int ((hexval s.[2 * i] lsl 4) lor hexval s.[(2 * i) + 1]))
  end

let hex_of_bytes (l : char list) : string =
  if l = [] then "_"
  else begin
    let b = Buffer.create (2 * List.length l) in
    List.iter (fun x -> Buffer.add_string b (Printf.sprintf "%02x" (int_of_byte x))) l;
    Buffer.contents b
  end

let coqstr (s : string) : char list = List.init (String.length s) (String.get s)
let ocamlstr (l : char list) : string = String.concat "" (List.map (String.make 1) l)

(* ---------- val text ---------- *)
type tok = LP | RP | A of string

let tokenize (s : string) : tok list =
  let toks = ref [] in
  let n = String.length s in
  let i = ref 0 in
  while !i < n do
    (match s.[!i] with
    | '(' -> toks := LP :: !toks; incr i
    | ')' -> toks := RP :: !toks; incr i
    | ' ' | '\t' | '\r' -> incr i
    | _ ->
        let j = ref !i in
        while !j < n && s.[!j] <> '(' && s.[!j] <> ')' && s.[!j] <> ' ' do incr j done;
        toks := A (String.sub s !i (!j - !i)) :: !toks;
        i := !j)
  done;
  List.rev !toks

let rec vl_of_list = function [] -> VNone | v :: r -> VCons (v, vl_of_list r)
let rec list_of_vl = function VNone -> [] | VCons (v, r) -> v :: list_of_vl r

let rec parse_val (ts : tok list) : val0 * tok list =
  match ts with
  | A "N" :: r -> (VNil, r)
  | LP :: A "i" :: A h :: RP :: r -> (VInt (z_of_hex h), r)
  | LP :: A "l" :: A h :: RP :: r -> (VLong (z_of_hex h), r)
  | LP :: A "e" :: A h :: RP :: r -> (VEnum (n_of_hex h), r)
  | LP :: A "b" :: A h :: RP :: r -> (VBool (h = "1"), r)
  | LP :: A "y" :: A h :: RP :: r -> (VBytes (bytes_of_hex h), r)
  | LP :: A "s" :: A h :: RP :: r -> (VStr (bytes_of_hex h), r)
  | LP :: A "t" :: A h :: RP :: r -> (VTime (z_of_hex h), r)
  | LP :: A "d" :: A h :: RP :: r -> (VDur (z_of_hex h), r)
  | LP :: A "X" :: A w :: RP :: r -> (VBad (coqstr w), r)
  | LP :: A "P" :: r ->
      let v, r' = parse_val r in
      (match r' with RP :: r'' -> (VPtr v, r'') | _ -> failwith "expected )")
  | LP :: A "S" :: A name :: r ->
      let vs, r' = parse_vals r in
      (VStruct (coqstr name, vl_of_list vs), r')
  | LP :: A "L" :: r ->
      let vs, r' = parse_vals r in
      (VList (vl_of_list vs), r')
  | _ -> failwith "parse_val"

and parse_vals ts =
  match ts with
  | RP :: r -> ([], r)
  | _ ->
      let v, r = parse_val ts in
      let vs, r' = parse_vals r in
      (v :: vs, r')

let rec show_val (v : val0) : string =
  match v with
  | VNil -> "N"
  | VInt z -> "(i " ^ hex_of_z z ^ ")"
  | VLong z -> "(l " ^ hex_of_z z ^ ")"
  | VEnum n -> "(e " ^ hex_of_n n ^ ")"
  | VBool b -> if b then "(b 1)" else "(b 0)"
  | VBytes b -> "(y " ^ hex_of_bytes b ^ ")"
  | VStr b -> "(s " ^ hex_of_bytes b ^ ")"
  | VTime z -> "(t " ^ hex_of_z z ^ ")"
  | VDur z -> "(d " ^ hex_of_z z ^ ")"
  | VBad w -> "(X " ^ ocamlstr w ^ ")"
  | VPtr v -> "(P " ^ show_val v ^ ")"
  | VStruct (n, vs) -> "(S " ^ String.concat " " (ocamlstr n :: List.map show_val (list_of_vl vs)) ^ ")"
  | VList vs -> "(L" ^ String.concat "" (List.map (fun v -> " " ^ show_val v) (list_of_vl vs)) ^ ")"

let val_of_string s =
  let v, r = parse_val (tokenize s) in
  if r <> [] then failwith "trailing tokens";
  v

let split1 s =
  match String.index_opt s ' ' with
  | None -> (s, "")
  | Some i -> (String.sub s 0 i, String.sub s (i + 1) (String.length s - i - 1))

let split_on c s = if s = "" then [] else String.split_on_char c s
