#!/bin/bash
# tools/coqgoal.sh <file.v> <line> [max-lines] : show the proof state after <line> lines of <file.v> (relative to /verif/coq)
f=$1; n=$2; t=${3:-60}
cd /verif/coq
tmp=/tmp/coqgoal_$$.v
( head -n $n $f; echo; echo "Show. Admitted." ) > $tmp
timeout 600 coqc -R theories KMIP $tmp 2>&1 | grep -v "^$" | head -n $t
rm -f /tmp/coqgoal_$$.*  /tmp/.coqgoal_$$.aux
