#!/bin/bash
# tools/reseed.sh <seed-name> <property-id>... : apply a kept seeded change to /repo, run the given checks, undo it
name=$1; shift
rm -rf /tmp/evidence.bak.$$ && cp -r /verif/evidence /tmp/evidence.bak.$$   # evidence committed in /verif must come from clean-tree runs
cd /repo && git apply /verif/seeded/$name/patch.diff || { echo "PATCH DOES NOT APPLY"; exit 2; }
mkdir -p /verif/work/reseed
for p in "$@"; do
  cd /verif && timeout 1800 ./check $p > work/reseed/$name-$p.log 2>&1; rc=$?
  echo "$name check $p: exit $rc, $(grep -c '^VIOLATION' work/reseed/$name-$p.log) VIOLATION lines"; grep "^VIOLATION" work/reseed/$name-$p.log | head -2
done
cd /repo && git checkout -- . && git status --short | head -3
cp /tmp/evidence.bak.$$/*.json /verif/evidence/ && rm -rf /tmp/evidence.bak.$$
