#!/usr/bin/env python3
"""tools/seed_meta.py <name> <property> <needs> <detected-by comma list> <missed-by comma list> [note]"""
import sys, json, os
name, prop, needs, det, miss = sys.argv[1:6]
note = sys.argv[6] if len(sys.argv) > 6 else ""
d = "/verif/seeded/" + name
meta = {
 "breaks_property": prop,
 "needs_to_manifest": needs,
 "origin": "independent sub-agent given only the property text and a scratch worktree of /repo (nothing from /verif)",
 "confirmed": "tools/try_seed.sh: package builds (also -tags verif); go test -vet=off -count=1 ./... still 36 passes with the change; demo_test.go fails with the change and passes without it",
 "checks_run": "patch applied to /repo with git apply, ./check <id> (quick tier), then git checkout -- .",
 "detected_by": [x for x in det.split(",") if x],
 "missed_by": [x for x in miss.split(",") if x],
 "note": note,
}
json.dump(meta, open(os.path.join(d, "meta.json"), "w"), indent=1)
print(d)
