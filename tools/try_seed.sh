#!/bin/bash
# tools/try_seed.sh <worktree-id> <name> <property-id>...   : confirm a sub-agent's seeded change and run checks against it
# (1) in the scratch worktree: 36 passes with the change, demo fails with / passes without it
# (2) apply the patch to /repo, run the given checks, undo it straight afterwards
export GOFLAGS=-mod=mod GOPROXY=off GOSUMDB=off GOTOOLCHAIN=local
id=$1; name=$2; shift; shift
wt=/tmp/wt/$id; out=/tmp/wt/out-$id
cd $wt || exit 2
git diff > /tmp/wt/patch-$id.diff
go build ./... && go build -tags verif ./... || { echo "BUILD FAILS"; exit 2; }
passes=$(go test -vet=off -count=1 -json ./... 2>/dev/null | grep -c '"Action":"pass"')
echo "passes with change: $passes"
cp $out/demo_test.go $wt/zz_demo_test.go
go test -vet=off -count=1 -run "TestDemo" ./... > /tmp/wt/demo-with-$id.log 2>&1; with=$?
git apply -R /tmp/wt/patch-$id.diff    # (git stash is shared between worktrees: not used)
go test -vet=off -count=1 -run "TestDemo" ./... > /tmp/wt/demo-without-$id.log 2>&1; without=$?
git apply /tmp/wt/patch-$id.diff
rm -f $wt/zz_demo_test.go
echo "demo with change: exit $with (want != 0); without: exit $without (want 0)"
mkdir -p /verif/seeded/$name
cp /tmp/wt/patch-$id.diff /verif/seeded/$name/patch.diff
cp $out/demo_test.go /verif/seeded/$name/demo_test.go
cp $out/NOTES.md /verif/seeded/$name/agent_notes.md 2>/dev/null
rm -rf /tmp/evidence.bak.$$ && cp -r /verif/evidence /tmp/evidence.bak.$$
cd /repo && git apply /verif/seeded/$name/patch.diff || { echo "PATCH DOES NOT APPLY"; exit 2; }
results=""
for p in "$@"; do
  cd /verif && timeout 1500 ./check $p > /tmp/wt/check-$name-$p.log 2>&1; rc=$?
  v=$(grep -c "^VIOLATION" /tmp/wt/check-$name-$p.log)
  echo "check $p: exit $rc, $v VIOLATION lines"; grep "^VIOLATION" /tmp/wt/check-$name-$p.log | head -3
  results="$results $p:$rc"
done
cd /repo && git checkout -- . && git status --short | head -3
cp /tmp/evidence.bak.$$/*.json /verif/evidence/ && rm -rf /tmp/evidence.bak.$$
echo "RESULTS passes=$passes demo_with=$with demo_without=$without checks:$results"
