#!/usr/bin/env python3
"""tools/seed_brief.py <property-id> <worktree-id> [avoid text]  : print the brief given to a seeding sub-agent
(the property's text and a scratch worktree only - nothing from /verif)"""
import json, sys
pid, wid = sys.argv[1], sys.argv[2]
avoid = sys.argv[3] if len(sys.argv) > 3 else ""
p = [json.loads(l) for l in open('/verif/properties.jsonl') if json.loads(l)['id'] == pid][0]
print(f"""You are helping to test a verification effort by planting a realistic defect in a Go library.

The library is smira/go-kmip (KMIP 1.4 TTLV codec via reflection over tagged structs, a TLS client and a batch-processing server). You have your OWN scratch git worktree of it at /tmp/wt/{wid} (package `kmip`, module github.com/smira/go-kmip). Work ONLY inside /tmp/wt/{wid} and /tmp/wt/out-{wid}. Do not read or touch /repo, /verif or any other directory under /tmp/wt. Do not use `git stash` (it is shared between worktrees), do not commit.

Environment (no network): run `export GOFLAGS=-mod=mod GOPROXY=off GOSUMDB=off GOTOOLCHAIN=local` in every shell call. Tests: `cd /tmp/wt/{wid} && go test -vet=off -count=1 ./...` (36 sub-tests pass on the unchanged tree; TestConnectTLSNoCA is a known always-failing test and makes the package report FAIL - that is expected, compare the set of passing tests, which must not shrink).

The property the library is supposed to satisfy (title: {p['title']}):

\"\"\"{p['statement']}\"\"\"

Your task: make a change to the library's non-test source (a plausible refactoring, optimisation, or 'improvement' a maintainer might make - not sabotage that looks deliberate) that BREAKS this property, while
 1. the package still compiles (`go build ./...` and `go build -tags verif ./...`),
 2. every test that passed before still passes (do not edit existing *_test.go files),
 3. the breakage needs something SPECIFIC to manifest - a particular interleaving, a fault at a particular point, a multi-step sequence of operations, an unusual input or configuration, or two cooperating code sites that each look fine alone - and is NOT exposed by ordinary first use.
{('Ideas already used by others, do NOT repeat them, find a different mechanism: ' + avoid) if avoid else ''}

Deliver, in /tmp/wt/out-{wid}/ :
 * demo_test.go - a Go test file in `package kmip` (it will be copied into the worktree root as zz_demo_test.go) whose tests are all named TestDemo... ; `go test -vet=off -count=1 -run TestDemo ./...` must FAIL with your change and PASS on the unchanged tree (verify both yourself: use `git diff > /tmp/wt/out-{wid}/p.diff; git apply -R /tmp/wt/out-{wid}/p.diff` to remove the change temporarily and `git apply /tmp/wt/out-{wid}/p.diff` to restore it). The demo must be deterministic (no flaky timing; use synchronisation, fakes or generous margins) and finish within 60 s. If it needs TLS certificates generate them in the test with crypto/x509.
 * NOTES.md - 10-20 lines: what you changed, why it looks innocent, exactly what is needed for the violation to manifest, and the outputs of the test runs (with/without).
Leave the change applied (uncommitted) in the worktree and leave no zz_demo_test.go in it when you finish. Keep the change small (ideally < 40 changed lines). Reply with a 5-line summary.""")
