#!/usr/bin/env python3
"""Regenerates /verif/MANIFEST.json from the table below (keeps it schema-valid)."""
import json, os
V = os.path.dirname(os.path.dirname(os.path.abspath(__file__)))
props = [json.loads(l) for l in open(os.path.join(V, "properties.jsonl"))]
ALL = [p["id"] for p in props]

CLAIMED = {
 "C18": dict(
   text="Machine-checked proof by complete enumeration: Generated.v (every constant of consts.go and the tagMap literal, regenerated from /repo on every run by the translator) is compared with the committed registry oracle Registry.v; the comparisons are forallb over the complete finite tables evaluated by vm_compute and lifted with forallb_forall to universally quantified theorems (both directions, annotation lookup through the model of getStructDesc's tag lookup, injectivity). The domain is finite and fully enumerated, so this is a proof and not a sample.",
   note="Trusted: Coq kernel + vm_compute; Registry.v (hand-maintained transcription, bootstrapped from the pinned tree and reviewed, no spec available offline); translator (cross-checked every run against the compiler's constant values and the tag bytes the real encoder emits for every tagMap key). KMIP 2.0 constants are outside the property except for injectivity.",
   technique="Coq proof: vm_compute enumeration of regenerated tables + translator cross-check",
   design="3/C18"),
 "C19": dict(
   text="Machine-checked proof by complete enumeration: every annotated field of every KMIP struct type in Generated.v (regenerated from /repo every run) is compared with the committed KMIP 1.4 structure table SpecSchema.v (tag name per (type, field), nested structure type, object tag), and the tag numbers produced by the Coq model of getStructDesc are compared with the registry numbers of those names; forallb over the complete schema by vm_compute, lifted to theorems. Two recorded deviations (Authentication lacks the CREDENTIAL level) are excluded by name and proved to be real.",
   note="Trusted: Coq kernel + vm_compute; SpecSchema.v and Registry.v (hand transcriptions from memory of KMIP 1.4, no spec offline); translator (cross-checked against reflect's view of the struct tags every run).",
   technique="Coq proof: vm_compute enumeration of regenerated schema vs spec table",
   design="3/C19"),
}

m = {
 "version": 1,
 "setup_cmd": "./setup.sh",
 "hooks": {"guard": "verif", "enable": "go build -tags verif (the harness is built from /repo's working tree with this tag; no hook files exist in /repo so far)",
           "baseline_off_cmd": "cd /repo && go test -mod=mod -json -vet=off -count=1 -timeout 25m ./...",
           "source_commits": [], "add_only": True},
 "engines": [
   {"name": "coq", "path": "coq/", "serves_properties": sorted(CLAIMED), "kind_free_text": "Coq 8.16.1 development: models, theorems (Properties/Cnn.v), regenerated Generated.v"},
   {"name": "translator", "path": "translator/", "serves_properties": sorted(CLAIMED), "kind_free_text": "Go (go/parser): /repo/*.go -> Generated.v on every run"},
   {"name": "harness", "path": "harness/", "serves_properties": sorted(CLAIMED), "kind_free_text": "Go correspondence harness built against /repo's working tree; runs the implementation on the cases the extracted model runs"},
 ],
 "checks": [],
 "notes": "All checks go through ./check <id> (lib/core.py, lib/checks.py). Violations of fixed defects are listed in known_findings.json as fixed: entries and suppress nothing.",
 "not_applicable": [],
}
for pid in ALL:
    if pid in CLAIMED:
        c = CLAIMED[pid]
        m["checks"].append({
            "property_id": pid,
            "quick_cmd": "./check %s --tier quick" % pid,
            "thorough_cmd": "./check %s --tier thorough" % pid,
            "evidence_file": "/verif/evidence/%s.json" % pid,
            "replay_cmd_template": "./check %s --replay {path}" % pid,
            "engine": "coq",
            "level_claimed": {"category": "proof", "text": c["text"], "design_ref": "DESIGN.md section " + c["design"]},
            "level_note": c["note"],
            "technique": c["technique"],
        })
    else:
        m["not_applicable"].append({"property_id": pid, "reason": "framework under construction: check not yet registered (DESIGN.md section 8 gives the order of work); the technique applies"})
json.dump(m, open(os.path.join(V, "MANIFEST.json"), "w"), indent=1)
print("claimed", len(m["checks"]), "not yet", len(m["not_applicable"]))
