#!/usr/bin/env python3
"""Regenerates /verif/MANIFEST.json from the table below (keeps it schema-valid)."""
import json, os
V = os.path.dirname(os.path.dirname(os.path.abspath(__file__)))
props = [json.loads(l) for l in open(os.path.join(V, "properties.jsonl"))]
ALL = [p["id"] for p in props]

CLAIMED = {
 "C18": dict(
   text="Machine-checked proof by complete enumeration: Generated.v (every constant of consts.go and the tagMap literal, regenerated from /repo on every run by the translator) is compared with the committed registry oracle Registry.v; the comparisons are forallb over the complete finite tables evaluated by vm_compute and lifted with forallb_forall to universally quantified theorems (both directions, annotation lookup through the model of getStructDesc's tag lookup, injectivity). The domain is finite and fully enumerated, so this is a proof and not a sample.",
   note="Trusted: Coq kernel + vm_compute; Registry.v (hand-maintained transcription, bootstrapped from the pinned tree and reviewed, no spec available offline); translator (cross-checked every run against the compiler's constant values and the tag bytes the real encoder emits for every tagMap key). KMIP 2.0 constants are outside the property except for injectivity.",
   technique="Coq proof: vm_compute enumeration of regenerated tables + translator cross-check",
   design="3/C18"),
 "C19": dict(
   text="Machine-checked proof by complete enumeration: every annotated field of every KMIP struct type in Generated.v (regenerated from /repo every run) is compared with the committed KMIP 1.4 structure table SpecSchema.v (tag name per (type, field), nested structure type, object tag), and the tag numbers produced by the Coq model of getStructDesc are compared with the registry numbers of those names; forallb over the complete schema by vm_compute, lifted to theorems. Two recorded deviations (Authentication lacks the CREDENTIAL level) are excluded by name and proved to be real.",
   note="Trusted: Coq kernel + vm_compute; SpecSchema.v and Registry.v (hand transcriptions from memory of KMIP 1.4, no spec offline); translator (cross-checked against reflect's view of the struct tags every run).",
   technique="Coq proof: vm_compute enumeration of regenerated schema vs spec table",
   design="3/C19"),
 "C02": dict(
   text="Machine-checked proof: for EVERY value and type environment the encoder model equals ser . to_tree (theorem C02_enc_canonical, mutual induction over the value), where ser is an independently written TTLV serialiser (3-byte tag, 1-byte type, 4-byte unpadded length, zero padding to 8, structure length = total size of children; lemmas C02_padded, C02_structure_length for all trees) and to_tree the declarative presence rules (declaration order, optional present iff non-zero, required always). History independence: the model is a pure function and the regenerated fact gen_pkg_var_writes = [] shows no package state is written. Tie: the implementation and the extracted model encode the same generated values (all 58 types, well-formed values, boundary primitives) byte for byte on every run; a history/parallel suite re-encodes values after random histories and in 16 goroutines.",
   note="Trusted: Coq kernel; Codec.v hand-written model of encode.go/encode_core.go/fields.go (tied by correspondence, counts in evidence); reflect/bytes.Buffer modelled; extraction (ExtrOcamlBasic, ExtrOcamlString) + driver glue; tag numbers enter through the regenerated tagMap, itself tied to the registry by C18. Concurrency beyond 'no shared writable state' is observed, not modelled.",
   technique="Coq proof (mutual induction): encoder = ser . to_tree; extracted-model vs implementation byte comparison",
   design="3/C02"),
 "C03": dict(
   text="Machine-checked proof: the decoder model terminates for EVERY schema, state and byte string (theorem C03_total / C03_total_all: the fuel of the slice loop - the only non-structural recursion - always suffices because every decoded element consumes at least 5 bytes, C03_progress; structure nesting is structural recursion on the schema tree), so it returns a value or an error. Panics, hangs, over-reads and dependence on delivery are properties of the runtime objects (reflect, bufio, LimitReader) and are decided on the implementation: every input (valid encodings, 14 kinds of mutation, truncation at every offset, random bytes, non-canonical encodings) is decoded from an unbuffered source with a consumption counter, and re-delivered buffered, through a 16-byte bufio, one byte at a time, in random chunks with empty reads and data+EOF, and with an injected I/O error.",
   note="Trusted: Coq kernel; Codec.v model of decode.go/decode_core.go tied by correspondence (same inputs through the extracted model; outcome, value and remaining bytes compared by C04's projection). The chunked-delivery theorem of DESIGN.md (Readers.v) is not yet proved: delivery independence rests on the harness. reflect/bufio/io modelled.",
   technique="Coq proof of termination/totality of the decoder model + differential run with delivery variants",
   design="3/C03"),
 "C13": dict(
   text="Machine-checked decision table: for every type environment, nil, typed-nil, foreign scalars, maps, slices, pointer-to-pointer and structures without a descriptor are errors of the encoder model at top level and at every interface-typed position (C13_top_level_rejects, C13_dynamic_rejects), and a failed Encode leaves the destination untouched (C13_failed_writes_nothing, for all values). The model is a total function, so 'never panics' is decided by the correspondence: every struct type x {well-formed, arbitrary, unsupported dynamic values at every interface position}, 18 top-level shapes and 12 Decode targets run on the implementation with recover and a counting writer; a panic or bytes written on error is the violation.",
   note="Trusted: Coq kernel; Codec.v model tied by correspondence; reflect's panic behaviour is observed, not modelled.",
   technique="Coq decision-table lemmas + exhaustive shape/position run of the implementation under recover",
   design="3/C13"),
}

m = {
 "version": 1,
 "setup_cmd": "./setup.sh",
 "hooks": {"guard": "verif", "enable": "go build -tags verif (the harness is built from /repo's working tree with this tag; no hook files exist in /repo so far)",
           "baseline_off_cmd": "cd /repo && go test -mod=mod -json -vet=off -count=1 -timeout 25m ./...",
           "source_commits": [], "add_only": True},
 "engines": [
   {"name": "coq", "path": "coq/", "serves_properties": sorted(CLAIMED), "kind_free_text": "Coq 8.16.1 development: models, theorems (Properties/Cnn.v), regenerated Generated.v"},
   {"name": "translator", "path": "translator/", "serves_properties": sorted(CLAIMED), "kind_free_text": "Go (go/parser): /repo/*.go -> Generated.v on every run"},
   {"name": "harness", "path": "harness/", "serves_properties": sorted(CLAIMED), "kind_free_text": "Go correspondence harness built against /repo's working tree; runs the implementation on the cases the extracted model runs"},
 ],
 "checks": [],
 "notes": "All checks go through ./check <id> (lib/core.py, lib/checks.py). Violations of fixed defects are listed in known_findings.json as fixed: entries and suppress nothing.",
 "not_applicable": [],
}
for pid in ALL:
    if pid in CLAIMED:
        c = CLAIMED[pid]
        m["checks"].append({
            "property_id": pid,
            "quick_cmd": "./check %s --tier quick" % pid,
            "thorough_cmd": "./check %s --tier thorough" % pid,
            "evidence_file": "/verif/evidence/%s.json" % pid,
            "replay_cmd_template": "./check %s --replay {path}" % pid,
            "engine": "coq",
            "level_claimed": {"category": "proof", "text": c["text"], "design_ref": "DESIGN.md section " + c["design"]},
            "level_note": c["note"],
            "technique": c["technique"],
        })
    else:
        m["not_applicable"].append({"property_id": pid, "reason": "framework under construction: check not yet registered (DESIGN.md section 8 gives the order of work); the technique applies"})
json.dump(m, open(os.path.join(V, "MANIFEST.json"), "w"), indent=1)
print("claimed", len(m["checks"]), "not yet", len(m["not_applicable"]))
