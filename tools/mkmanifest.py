#!/usr/bin/env python3
"""Regenerates /verif/MANIFEST.json from the table below (keeps it schema-valid)."""
import json, os
V = os.path.dirname(os.path.dirname(os.path.abspath(__file__)))
props = [json.loads(l) for l in open(os.path.join(V, "properties.jsonl"))]
ALL = [p["id"] for p in props]

CLAIMED = {
 "C18": dict(
   text="Machine-checked proof by complete enumeration: Generated.v (every constant of consts.go and the tagMap literal, regenerated from /repo on every run by the translator) is compared with the committed registry oracle Registry.v; the comparisons are forallb over the complete finite tables evaluated by vm_compute and lifted with forallb_forall to universally quantified theorems (both directions, annotation lookup through the model of getStructDesc's tag lookup, injectivity). The domain is finite and fully enumerated, so this is a proof and not a sample.",
   note="Trusted: Coq kernel + vm_compute; Registry.v (hand-maintained transcription, bootstrapped from the pinned tree and reviewed, no spec available offline); translator (cross-checked every run against the compiler's constant values and the tag bytes the real encoder emits for every tagMap key). KMIP 2.0 constants are outside the property except for injectivity.",
   technique="Coq proof: vm_compute enumeration of regenerated tables + translator cross-check",
   design="3/C18"),
 "C19": dict(
   text="Machine-checked proof by complete enumeration: every annotated field of every KMIP struct type in Generated.v (regenerated from /repo every run) is compared with the committed KMIP 1.4 structure table SpecSchema.v (tag name per (type, field), nested structure type, object tag), and the tag numbers produced by the Coq model of getStructDesc are compared with the registry numbers of those names; forallb over the complete schema by vm_compute, lifted to theorems. Two recorded deviations (Authentication lacks the CREDENTIAL level) are excluded by name and proved to be real.",
   note="Trusted: Coq kernel + vm_compute; SpecSchema.v and Registry.v (hand transcriptions from memory of KMIP 1.4, no spec offline); translator (cross-checked against reflect's view of the struct tags every run).",
   technique="Coq proof: vm_compute enumeration of regenerated schema vs spec table",
   design="3/C19"),
 "C02": dict(
   text="Machine-checked proof: for EVERY value and type environment the encoder model equals ser . to_tree (theorem C02_enc_canonical, mutual induction over the value), where ser is an independently written TTLV serialiser (3-byte tag, 1-byte type, 4-byte unpadded length, zero padding to 8, structure length = total size of children; lemmas C02_padded, C02_structure_length for all trees) and to_tree the declarative presence rules (declaration order, optional present iff non-zero, required always). History independence: the model is a pure function and the regenerated fact gen_pkg_var_writes = [] shows no package state is written. Tie: the implementation and the extracted model encode the same generated values (all 58 types, well-formed values, boundary primitives) byte for byte on every run; a history/parallel suite re-encodes values after random histories and in 16 goroutines.",
   note="Trusted: Coq kernel; Codec.v hand-written model of encode.go/encode_core.go/fields.go (tied by correspondence, counts in evidence); reflect/bytes.Buffer modelled; extraction (ExtrOcamlBasic, ExtrOcamlString) + driver glue; tag numbers enter through the regenerated tagMap, itself tied to the registry by C18. Concurrency beyond 'no shared writable state' is observed, not modelled.",
   technique="Coq proof (mutual induction): encoder = ser . to_tree; extracted-model vs implementation byte comparison",
   design="3/C02"),
 "C03": dict(
   text="Machine-checked proof: the decoder model terminates for EVERY schema, state and byte string (theorem C03_total / C03_total_all: the fuel of the slice loop - the only non-structural recursion - always suffices because every decoded element consumes at least 5 bytes, C03_progress; structure nesting is structural recursion on the schema tree), so it returns a value or an error. Panics, hangs, over-reads and dependence on delivery are properties of the runtime objects (reflect, bufio, LimitReader) and are decided on the implementation: every input (valid encodings, 14 kinds of mutation, truncation at every offset, random bytes, non-canonical encodings) is decoded from an unbuffered source with a consumption counter, and re-delivered buffered, through a 16-byte bufio, one byte at a time, in random chunks with empty reads and data+EOF, and with an injected I/O error.",
   note="Trusted: Coq kernel; Codec.v model of decode.go/decode_core.go tied by correspondence (same inputs through the extracted model; outcome, value and remaining bytes compared by C04's projection). The chunked-delivery theorem of DESIGN.md (Readers.v) is not yet proved: delivery independence rests on the harness. reflect/bufio/io modelled.",
   technique="Coq proof of termination/totality of the decoder model + differential run with delivery variants",
   design="3/C03"),
 "C13": dict(
   text="Machine-checked decision table: for every type environment, nil, typed-nil, foreign scalars, maps, slices, pointer-to-pointer and structures without a descriptor are errors of the encoder model at top level and at every interface-typed position (C13_top_level_rejects, C13_dynamic_rejects), and a failed Encode leaves the destination untouched (C13_failed_writes_nothing, for all values). The model is a total function, so 'never panics' is decided by the correspondence: every struct type x {well-formed, arbitrary, unsupported dynamic values at every interface position}, 18 top-level shapes and 12 Decode targets run on the implementation with recover and a counting writer; a panic or bytes written on error is the violation.",
   note="Trusted: Coq kernel; Codec.v model tied by correspondence; reflect's panic behaviour is observed, not modelled.",
   technique="Coq decision-table lemmas + exhaustive shape/position run of the implementation under recover",
   design="3/C13"),
 "C07": dict(
   text="Machine-checked proof over the session model: for EVERY configuration, input byte stream and handler script the trace has the shape (read-arm? request-events write-arm? Wrote)* read-arm? events Close (C07_trace_shape, induction over the request loop; no bound on requests): each processed request is followed by exactly one response before anything of the next request, and an unanswered request is followed by Close and nothing else. C07_step: each iteration answers the message decoded from the ONE persistent decoder state with the encoding of build_response for that request and continues from the state left behind, so the k-th response answers the k-th request; C07_response_answers / C07_item_echo (instance: regenerated schema): version, correlation value, batch count, server time, one item per request item in order with the same operation and unique id. Tie: the real Server.Serve runs on in-memory connections with scripted handlers; its logged events are compared with the extracted model's trace for the same case; sequential delivery additionally checks 'connection open with a request unanswered'.",
   note="Trusted: Coq kernel; Session.v hand model of server.go tied by correspondence; codec model (C01-C06) for decoding requests / encoding responses; goroutines, net.Conn, time.Now modelled. Time stamps are bracketed against the wall clock and normalised before comparison.",
   technique="Coq proof (induction over the request loop) of trace shape + extracted-model vs real-server trace comparison",
   design="3/C07"),
 "C08": dict(
   text="Machine-checked proof: C08_items - for every batch and script the handler invocations are exactly the items with a registered handler, once each, in item order, with that item's payload, and the response items are position by position the outcome of that item; C08_outcome - Success+payload / Operation Failed with message and reason / General Failure for plain errors and panics; C08_independent, C08_unscripted_independent - item i's outcome is a function of behaviour i alone; C08_no_divergence. 'Cannot kill the server' is a runtime fact decided by the tie: scripted handlers return every behaviour (payloads of the right, wrong and unencodable kinds, nil, errors, errors with reason, panic(string|error|nil|int)) at every position, with concurrent connections; a crash of the harness process is the violation.",
   note="Trusted: as C07. recover() and process death are observed, not modelled (panic(nil) is exercised with GODEBUG panicnil=1 compiled into the harness).",
   technique="Coq proof over handle_items + scripted-behaviour runs of the real server",
   design="3/C08"),
 "C09": dict(
   text="Machine-checked proof: C09_session_gate - a failed session-auth callback yields exactly [SessAuth false; Close]; C09_request_gate / C09_not_cleared - a request with credentials and no callback, or rejected credentials, is never admitted: no handler event, no response, at most the failed ReqAuth then Close; C09_context - every handler invocation in any trace carries this connection's session id and session-auth value and (C09_request_gate) the request-auth value computed from THAT request's credentials, nil when it has none (C09_rauth_nil_without_credentials). Tie: sessions with accepted / rejected / absent credentials in every order, with and without callbacks, 1-4 concurrent connections with distinct identities; handlers log what they saw.",
   note="Trusted: as C07. Concurrent sessions are modelled as independent functions of their own connection; cross-connection leaks are looked for by the concurrent harness cases.",
   technique="Coq proof over handle_batch/session + scripted authentication runs",
   design="3/C09"),
 "C10": dict(
   text="Machine-checked proof: C10_step / C10_trace - for EVERY byte stream, handler and response events occur only in iterations whose message decoded completely and was admitted; the first message that is not is followed by Close and nothing else; C10_terminates; C10_isolation - a server's traces are the map of the per-connection function. Release of goroutine and connection is a runtime fact: the harness sends garbage / truncated / wrong-type / bad-count / asynchronous messages at every position next to valid traffic and checks Close, no leaked goroutines, Serve returning nil.",
   note="Trusted: as C07; goroutine/connection release is observed (runtime.NumGoroutine, logged Close), not modelled: partial in that respect.",
   technique="Coq proof over the session model on arbitrary bytes + hostile-stream runs of the real server",
   design="3/C10"),
 "C15": dict(
   text="Machine-checked proof: C15_rearmed - every trace is (arm_r ++ events ++ arm_w ++ Wrote)* ++ arm_r ++ events ++ Close with arm_r = [ArmRead] iff ReadTimeout <> 0 and arm_w = [ArmWrite] iff WriteTimeout <> 0, for all histories; C15_zero_means_none. Tie: the logging connection records every SetReadDeadline/SetWriteDeadline relative to writes; real-time scenarios with wide margins (timely requests outliving the timeout survive; a stall before or inside a request disconnects; a peer that does not read is disconnected by the write deadline; zero timeouts set nothing) and deadline values = now + T.",
   note="Trusted: as C07; net.Conn deadline semantics and the wall clock are modelled by the in-memory connection (partial: the TLS handshake arm and the Client side are exercised in the TLS/client suites).",
   technique="Coq proof of arm positions in every trace + real-time scenarios",
   design="3/C15"),
 "C17": dict(
   text="Machine-checked proof over the accept-loop model, for EVERY finite sequence of Accept results (induction, no length bound): every back-off is between 5 ms and 1 s (C17_backoff_bounded), follows the doubling law min(1000, 5*2^k) and is reset by a successful accept (C17_doubling_law, C17_next_connection_served); any number of temporary errors never ends the loop and the next connection is served (C17_survives_temporary_errors); the result is the error exactly at the first permanent error before Shutdown and nil for any error or late connection once Shutdown was signalled (C17_result, C17_late_connection_closed). Tie: every sequence over {temporary error, connection, permanent error, shutdown} up to length 4 (thorough 6) plus the 11-step sequence reaching the 1 s cap is run against the real Serve through a fault-injecting listener; sleeps, served connections and the return value are compared with the extracted model.",
   note="Trusted: Coq kernel; Accept.v hand model tied by correspondence; time.Sleep, net.Error.Temporary, select modelled; sleeps observed via Server.Log and the wall clock.",
   technique="Coq proof (induction over accept sequences) + exhaustive short sequences against the real Serve",
   design="3/C17"),
 "C20": dict(
   text="Machine-checked proof for ALL supported lists, offers and heaps: empty offer -> the supported list in order (C20_empty_offer); otherwise exactly filter (in supported) offer - order and multiplicity of the offer, none invented, none omitted (C20_subset, C20_none_invented_none_omitted); the reply's backing array is allocated by the call and every pre-existing array - the configuration's, DefaultSupportedVersions' - is unchanged (C20_no_alias, over an explicit model of Go slices and append); an empty configuration is replaced by a fresh copy of the default (C20_defaulting); the regenerated default is 1.4, 1.3, 1.2, 1.1 (C20_default). Tie: the real handler is called (verif build-tag hook) on every (supported, offer) pair over a 4-version universe up to the length bounds; result and memory sharing (element addresses over the full capacity, mutation of the reply) are compared with the extracted model.",
   note="Trusted: Coq kernel; Discover.v hand model; Go's append semantics modelled (growth policy abstracted); the verif hook file only re-exports the unexported handler.",
   technique="Coq proof over an explicit slice/heap model + exhaustive small-universe run of the real handler",
   design="3/C20"),
 "C14": dict(
   text="Machine-checked proof over the client model, for EVERY reply byte string: Send returns a payload only if the reply decodes to a response with batch count 1, exactly one item, the requested operation and status Success, and then it is that item's payload (C14_payload_only_for_matching_success, C14_judge_iff); a server error carries the item's reason and message and arises only from such an item with another status (C14_server_error); not connected -> error (C14_not_connected); an unencodable payload -> error with nothing sent (C14_unencodable_payload); DiscoverVersions returns versions only from a Discover Versions Response payload - the checked assertion (C14_discover_versions); deadlines armed iff configured around each exchange (C14_client_deadlines). 'Never panics' is decided by the tie: the real Client runs over loopback TLS against a scripted peer replying with every combination of batch count, item count, operation, status, reason, message, payload present/absent, their mutations, truncations, garbage and no reply; result and the bytes the peer received are compared with the extracted model.",
   note="Trusted: Coq kernel; Client.v hand model tied by correspondence; codec model for decoding replies; crypto/tls transport. The end-to-end clause (client against this package's Server) follows from C01 round trip + C07/C08 and is exercised by the session and TLS suites rather than stated as one theorem.",
   technique="Coq proof of the client decision table + real Client against a scripted TLS peer",
   design="3/C14"),
 "C16": dict(
   text="Machine-checked proof over the regenerated assignments of DefaultServerTLSConfig / DefaultClientTLSConfig (C16_defaults: MinVersion TLS 1.2, RequireAndVerifyClientCert; nothing that weakens verification) and an acceptance specification of crypto/tls: for EVERY peer a completed server handshake implies TLS >= 1.2 and a client certificate verifying against the pool (C16_server), a completed client handshake implies TLS >= 1.2 and a server certificate verifying against the root pool and host name (C16_client). The specification is validated against the real crypto/tls on every run over the entire finite peer space of the property: certificate in {none, valid, self-signed, other CA, expired, wrong host} x max version {1.0,1.1,1.2,1.3} x role + plaintext, observing callbacks, handlers, responses and bytes a rogue server receives.",
   note="Partial by nature: crypto/tls and crypto/x509 are specified (TLS.v, 15 lines), not verified. Trusted: Coq kernel, translator (unknown statements make the theorem fail), loopback networking.",
   technique="Coq proof over regenerated TLS defaults + acceptance spec validated against real crypto/tls on the full peer space",
   design="3/C16"),
 "C11": dict(
   text="Machine-checked proof over an interleaving semantics (Shutdown.v) of the accept loop, Shutdown, its waiter, the sessions and the environment, for EVERY schedule and any number of connections (inductive invariant over all reachable states, ShutdownProofs.step_inv): Shutdown returns nil only when no started session is registered, running or closing - hence nothing starts or runs after it (C11_shutdown_waits); a session ends only after its connection was closed (C11_ended_was_closed); the context's error only if the context ended, nil only after the waiter signalled (C11_ctx); Serve returns nil once Shutdown was signalled and closes the connection accepted too late (C11_serve_nil, C11_late_connection_closed); no step of Shutdown/waiter/context touches a session (C11_no_abort). C11_refuted_pinned exhibits the 10-step schedule that breaks the pinned tree and C11_fixed_same_schedule the repaired behaviour. Tie: every well-formed forced schedule over {connect, release accepted connection, session ends, Shutdown up to the listener close, let the close through, context ends} up to length 5 (thorough 7), 1-2 connections, runs against the real server through gated fakes; the outcome must be one the extracted model allows, and 'a session running after Shutdown returned nil' is checked directly at every point.",
   note="Partial in that step granularity and Go's channel/select/WaitGroup/Mutex semantics are modelled, not verified. No source hooks: all schedule points are reachable through the injected net.Listener / net.Conn / context.",
   technique="Coq proof of inductive invariants over an interleaving semantics + forced-schedule enumeration on the real server",
   design="3/C11"),
 "C12": dict(
   text="Machine-checked proof of a discipline, by complete enumeration of the regenerated access table: every pair of accesses to the same Server field that may overlap in time and contains a write holds the mutex on both sides or is ordered by the go statement (C12_discipline, forallb over all pairs by vm_compute lifted with forallb_forall); no function of the package assigns a package-level variable, so Encoder/Decoder instances share nothing (C12_codec_stateless); the WaitGroup is never incremented once the waiter may be in Wait and never goes negative, over all schedules of the interleaving model (C12_waitgroup_protocol, C12_waitgroup_nonnegative). Tie: the translator regenerates the table every run; the harness built with -race runs 8 concurrent sessions x 5 requests with Shutdown at a random moment, 8 goroutines encoding/decoding overlapping types and TLS clients; a detector report (with both stacks) is the replay.",
   note="Partial: syntactic field accesses with hand-fixed thread classes and happens-before edges; the Go memory model, aliasing through handler arguments and unexplored interleavings are outside the theorem. Client is documented as not safe for concurrent use and is excluded.",
   technique="Coq proof by enumeration of a regenerated lockset/happens-before table + Go race detector runs",
   design="3/C12"),
 "C01": dict(
   text="Machine-checked proof (CodecRT.v, mutual induction over the value - no bound on depth, widths, string or sequence lengths): C01_roundtrip - for EVERY type environment satisfying the schema conditions env_ok and EVERY well-formed message value (typed per schema, dynamic payloads agreeing with the dispatch table applied to the discriminating sibling, required sequences non-empty, sizes < 2^32, primitives in range) of a structure type with a proper tag, decoding the bytes Encode produced - with anything after them on the stream - yields the normalised value (pointer payload -> value payload, never-encoded fields cleared), consumes exactly the message and leaves no look-ahead; C01_instance_schema_ok - the schema regenerated from /repo satisfies env_ok (tags proper and pairwise distinct per structure, any-tag field last/optional/skipped, every dynamic field discriminated by an earlier Enumeration/Text String sibling, dispatch targets primitives or known structures), re-checked by vm_compute on every run; C01_request_roundtrip / C01_response_roundtrip are the corollaries for this tree. C01_reencode_identical - encoding the decoded (normalised) value again reproduces the identical bytes (second mutual induction); C01_wf_checkable - a computable check wf_b implies the hypothesis, and C01_example_wf / C01_example_roundtrips show a non-trivial Create request satisfying it; the evidence counts how many generated values satisfy wf_b on each run. Tie: for every struct type and dispatch entry (paired from the specification's tables, not the code's) well-formed values with boundary primitives are encoded, decoded and re-encoded by the implementation and compared with the extracted model's normalised value and bytes.",
   note="Trusted: Coq kernel; Codec.v hand model of encode.go/decode.go/fields.go tied by correspondence (counts in evidence); reflect/bufio/LimitReader modelled; nil and empty sequences are identified in the value universe (the documented normalisation). The hypothesis wf is exercised by the generator's well-formed mode: the driver reports 'model-roundtrip-fails' if the model itself did not round-trip a generated value.",
   technique="Coq proof (mutual induction over values and schema) of Decode(Encode v) = normalize v + regenerated-schema side conditions by vm_compute + implementation/extracted-model comparison",
   design="3/C01"),
 "C04": dict(
   text="Machine-checked proof, partial: the decoder model decides every input (C04_decides) and accepts every canonical primitive item with the value it denotes (C04_primitive_complete). The soundness / completeness theorems against the relational specification of DESIGN.md are not yet closed; until then accept/reject and the reported value are decided by differential comparison with the extracted decoder model - valid encodings, 14 mutation kinds on every header field (boundary lengths incl. 2^31, 2^32-1, 0xfffffff8..ff), truncation at every offset, deletion / duplication / swap / splice with fixed-up lengths, non-zero padding, spelled-out zero optionals (independent reflection-driven serialiser), random bytes - and 'a truncation of a valid message is accepted' is checked directly.",
   note="Trusted: Coq kernel; Codec.v model of decode.go tied by correspondence in both directions (implementation vs model on the same bytes). Until the soundness theorem is closed the model plays the role of the specification: a defect shared by model and code would go unnoticed.",
   technique="Coq proof (partial) + differential decoding against the extracted model on mutated and non-canonical encodings",
   design="3/C04"),
 "C05": dict(
   text="Machine-checked proof about the decoder model, partial: a value of declared length n is read only if n bytes are really there and then holds exactly n (C05_value_within_input); the region handed to a nested decoder is never larger than what is there, whatever was declared (C05_region_within_input). The linear bound on real allocation (700 bytes per input byte + 64 KiB) is a runtime fact and is measured: every item header of generated messages - strings, byte strings, structures, fixed-size items and skipped items under Message Extension - gets its length replaced by 2^16, 2^20, 2^24, 2^31, 2^32-1, 0xfffffff8 (and truncations), each Decode measured with runtime.MemStats.TotalAlloc under a 3 GiB limit.",
   note="Partial: the Go heap / GC / reflect allocations are measured, not modelled; the allocation-ledger theorem of DESIGN.md is not yet written.",
   technique="Coq lemmas on the reader model + measured allocation with planted lengths at every position",
   design="3/C05"),
 "C06": dict(
   text="Machine-checked proof: C06_stream - for every type environment satisfying env_ok, any number of well-formed messages of any size written back to back: successive Decode calls on ONE decoder state return them one by one, in order, normalised, and then io.EOF exactly at the clean end (induction over the message list on the persistent decoder state); C06_exact_consumption - each successful Decode consumes exactly its message (8 bytes + declared length, C06_message_length) and leaves no look-ahead, whatever follows; C06_instance - the regenerated schema satisfies the hypothesis; C06_forward_progress. Fragmentation is a property of the reader objects (bufio, LimitReader, ReadFull) and is decided on the implementation: random sequences of 1-4 messages through one Decoder, every two-way split of the stream (every offset for streams up to 300 bytes), one-byte, random-chunk, data-with-EOF, empty-read and 16-byte-bufio deliveries, buffered and unbuffered top level, consumed bytes per message on the unbuffered path - all compared with the in-memory result and that with the model.",
   note="Trusted: Coq kernel; Codec.v model tied by correspondence; the chunked-reader theorem of DESIGN.md (ReadFull/bufio/LimitReader over arbitrary chunkings) is not written: delivery independence rests on the harness.",
   technique="Coq proof (induction over the message list, on top of the round-trip theorem) + exhaustive two-way fragmentation of real streams",
   design="3/C06"),
}

m = {
 "version": 1,
 "setup_cmd": "./setup.sh",
 "hooks": {"guard": "verif", "enable": "go build -tags verif (the harness is built from /repo's working tree with this tag; /repo/verif_hooks.go re-exports the built-in Discover Versions handler)",
           "baseline_off_cmd": "cd /repo && go test -mod=mod -json -vet=off -count=1 -timeout 25m ./...",
           "source_commits": ["72b57c8"], "add_only": True},
 "engines": [
   {"name": "coq", "path": "coq/", "serves_properties": sorted(CLAIMED), "kind_free_text": "Coq 8.16.1 development: models, theorems (Properties/Cnn.v), regenerated Generated.v"},
   {"name": "translator", "path": "translator/", "serves_properties": sorted(CLAIMED), "kind_free_text": "Go (go/parser): /repo/*.go -> Generated.v on every run"},
   {"name": "harness", "path": "harness/", "serves_properties": sorted(CLAIMED), "kind_free_text": "Go correspondence harness built against /repo's working tree; runs the implementation on the cases the extracted model runs"},
 ],
 "checks": [],
 "notes": "All checks go through ./check <id> (lib/core.py, lib/checks.py). Violations of fixed defects are listed in known_findings.json as fixed: entries and suppress nothing.",
 "not_applicable": [],
}
for pid in ALL:
    if pid in CLAIMED:
        c = CLAIMED[pid]
        m["checks"].append({
            "property_id": pid,
            "quick_cmd": "./check %s --tier quick" % pid,
            "thorough_cmd": "./check %s --tier thorough" % pid,
            "evidence_file": "/verif/evidence/%s.json" % pid,
            "replay_cmd_template": "./check %s --replay {path}" % pid,
            "engine": "coq",
            "level_claimed": {"category": "proof", "text": c["text"], "design_ref": "DESIGN.md section " + c["design"]},
            "level_note": c["note"],
            "technique": c["technique"],
        })
    else:
        m["not_applicable"].append({"property_id": pid, "reason": "framework under construction: check not yet registered (DESIGN.md section 8 gives the order of work); the technique applies"})
json.dump(m, open(os.path.join(V, "MANIFEST.json"), "w"), indent=1)
print("claimed", len(m["checks"]), "not yet", len(m["not_applicable"]))
