#!/bin/bash
# tools/reseed_primary.sh [name-glob] : like reseed_all.sh but runs only the FIRST check listed in each seed's meta.json
# (the whole matrix takes ~7 h since every seeded run rebuilds the Coq development); default glob: all seeds
cd /verif
pat=${1:-*}
out=work/reseed_primary.log; : > $out
rm -rf /tmp/evidence.keep && cp -r evidence /tmp/evidence.keep
mkdir -p work/reseed
for d in seeded/$pat/; do
  name=$(basename $d)
  p=$(python3 -c "import json;print((json.load(open('$d/meta.json')).get('detected_by') or [''])[0])" 2>/dev/null)
  [ -z "$p" ] && { echo "$name - no-detecting-check-listed" >> $out; continue; }
  (cd /repo && git apply /verif/$d/patch.diff 2>/dev/null) || { echo "$name NOAPPLY" >> $out; (cd /repo && git checkout -- .); continue; }
  timeout 900 ./check $p > work/reseed/all-$name-$p.log 2>&1; rc=$?
  v=$(grep -c '^VIOLATION' work/reseed/all-$name-$p.log)
  if [ $rc -eq 1 ] && [ $v -gt 0 ]; then echo "$name $p DETECTED" >> $out; else echo "$name $p MISSED rc=$rc" >> $out; fi
  (cd /repo && git checkout -- . && git clean -fdq)
done
cp /tmp/evidence.keep/*.json evidence/ && rm -rf /tmp/evidence.keep
echo FINISHED >> $out
