#!/bin/bash
# tools/refresh_evidence.sh [tier] : run every check on the (clean) tree so that the committed evidence comes from it
cd /verif
[ -z "$(git -C /repo status --short)" ] || { echo "/repo is not clean"; exit 2; }
tier=${1:-quick}
for p in C01 C02 C03 C04 C05 C06 C07 C08 C09 C10 C11 C12 C13 C14 C15 C16 C17 C18 C19 C20; do
  /usr/bin/time -f "$p %es" ./check $p --tier $tier > work/refresh_$p.log 2>&1; rc=$?
  echo "$p exit=$rc $(grep -c '^VIOLATION' work/refresh_$p.log) violations; $(tail -1 work/refresh_$p.log)"
done
