#!/bin/bash
# tools/reseed_all.sh : for every kept seeded change, apply it, run the checks its meta.json lists as detecting it, undo it;
# prints one line per (seed, check): DETECTED / MISSED / NOAPPLY.  Evidence is restored afterwards.
cd /verif
out=work/reseed_all.log; : > $out
rm -rf /tmp/evidence.keep && cp -r evidence /tmp/evidence.keep
for d in seeded/*/; do
  name=$(basename $d)
  checks=$(python3 -c "import json;print(' '.join(json.load(open('$d/meta.json')).get('detected_by',[])))" 2>/dev/null)
  [ -z "$checks" ] && { echo "$name - no-detecting-check-listed" >> $out; continue; }
  (cd /repo && git apply /verif/$d/patch.diff 2>/dev/null) || { echo "$name NOAPPLY" >> $out; (cd /repo && git checkout -- .); continue; }
  for p in $checks; do
    timeout 900 ./check $p > work/reseed/all-$name-$p.log 2>&1; rc=$?
    v=$(grep -c '^VIOLATION' work/reseed/all-$name-$p.log)
    if [ $rc -eq 1 ] && [ $v -gt 0 ]; then echo "$name $p DETECTED" >> $out; else echo "$name $p MISSED rc=$rc" >> $out; fi
  done
  (cd /repo && git checkout -- . && git clean -fdq)
done
cp /tmp/evidence.keep/*.json evidence/ && rm -rf /tmp/evidence.keep
echo FINISHED >> $out
